#!/bin/bash
# Sensitivity self-test: every "fix:" commit of /repo is reverted in a scratch worktree and the check of
# the property it repaired must report a violation (exit 1).  Usage: revert_fixes.sh [sha prop]...
# Without arguments the table below is used.  Output: one line per fix.
set -u
cd "$(dirname "$0")/.."
TABLE="76ecba9:C07 2453bda:C01 bfdb3b9:C17 8fa8518:C16 c45d952:C16 fea5ed0:C05 e79b48f:C05 2463430:C09 8ef57ec:C09 97bfbd3:C09 1a548c8:C20 0e3141b:C20 79717b0:C20 4ef75dc:C20 d555053:C10 a7ca883:C03 73fa442:C01 d58a10b:C08 b47ac29:C06 07306b8:C04 4e5f3aa:C03 2dc0613:C13 448995f:C19 38a5148:C08 6065123:C08 d584058:C03 0ef53f1:C09 c0222e1:C08 5353cf8:C12 73adb28:C12 4fb808f:C18 f01da04:C18 b6c6225:C11 202513c:C11 f9a73b1:C12 6a387c7:C03 4825608:C03 b9f2666:C03 1cc9708:C12 1600f32:C12 18b0c17:C12 edd4d0c:C09 2ff94db:C12 20fe73c:C18"
[ $# -gt 0 ] && TABLE="$*"
OUT=$(mktemp -d /tmp/eio-revert-XXXX)
for ent in $TABLE; do
  sha=${ent%%:*}; prop=${ent##*:}
  wt=$(mktemp -u /tmp/eio-rv-XXXX)
  git -C /repo worktree add --detach "$wt" HEAD >/dev/null 2>&1
  if ! git -C "$wt" revert --no-commit "$sha" >/dev/null 2>&1; then
    echo "$sha $prop revert-conflict"; git -C /repo worktree remove --force "$wt"; continue
  fi
  VERIF_REPO="$wt" VERIF_EVIDENCE_DIR="$OUT" VERIF_REPLAYS_DIR="$OUT" ./check "$prop" "${RF_TIER:-quick}" > "$OUT/$sha-$prop.log" 2>&1
  rc=$?
  sigs=$(grep '^violation signature=' "$OUT/$sha-$prop.log" | sed 's/^violation signature=\([^:]*\):.*/\1/' | tr '\n' ' ')
  echo "$sha $prop exit=$rc $sigs"
  git -C /repo worktree remove --force "$wt"; rm -rf "$wt"
done
git -C /repo worktree prune
rm -rf "$OUT"
