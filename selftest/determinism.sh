#!/bin/bash
# Determinism self-test (DESIGN 5.4): the same run indices are executed in several separate
# processes at different GOMAXPROCS; every process must print identical (trace hash, event hash,
# steps, yields, outcome, #violations) lines.  usage: selftest/determinism.sh [N] [props...]
cd /verif
N=${1:-300}; shift
PROPS=${@:-C01 C03 C05 C08 C09 C10 C12 C13 C15 C18 C19 C20}
BIN=$(python3 -c "
import sys; sys.path.insert(0,'/verif')
from vlib import build as B
print(B.build()[0])")
rc=0
for p in $PROPS; do
  d=$(mktemp -d)
  i=0
  for g in 1 2 4 8 16 1 4 16; do
    i=$((i+1))
    (GOMAXPROCS=$g VERIF_PROP=$p VERIF_DET=$N VERIF_SEED=${VERIF_SEED:-4242} $BIN -test.run '^TestDeterminism$' -test.timeout 0 2>/dev/null | grep '^DET' > $d/out.$i) &
  done
  wait
  ok=1
  for f in $d/out.*; do
    if ! cmp -s $d/out.1 $f; then ok=0; echo "DIVERGENCE $p: $(diff $d/out.1 $f | head -3)"; fi
  done
  lines=$(wc -l < $d/out.1)
  if [ "$lines" != "$N" ]; then ok=0; echo "INCOMPLETE $p: $lines of $N runs"; fi
  if [ $ok = 1 ]; then echo "deterministic $p: $N runs x 8 processes (GOMAXPROCS 1,2,4,8,16,1,4,16) identical"; else rc=1; fi
  rm -rf $d
done
exit $rc
