#!/bin/bash
# usage: tools/one.sh PROP IDX [tier]  -> dumps one generated run
B=$(ls -td /verif/.build/*/ | head -1)
VERIF_PROP=$1 VERIF_ONE=$2 VERIF_TIER=${3:-quick} $B/sim.test -test.run TestOne 2>&1
