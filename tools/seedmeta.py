#!/usr/bin/env python3
"""Re-confirm every seeded change under /verif/seeded and run its property's quick check against it;
writes seeded/<id>/meta.json and seeded/RESULTS.md.  Usage: seedmeta.py [id ...]   (default: all)

Nothing here is used by the registered checks; the checks are run through tools/seedcheck.py, i.e. against a
scratch worktree of /repo with the patch applied (VERIF_REPO), evidence redirected away from /verif/evidence."""
import json
import os
import re
import subprocess
import sys
import time

HERE = os.path.dirname(os.path.dirname(os.path.abspath(__file__)))
SEEDED = os.path.join(HERE, "seeded")
sys.path.insert(0, os.path.join(HERE, "tools"))
import seedcheck  # noqa: E402

NOTES_OVERRIDE = os.path.join(SEEDED, "notes.json")  # hand-written remarks per id (why missed, obsolete, ...)


def first_line(path):
    if not os.path.exists(path):
        return ""
    for l in open(path):
        l = l.strip().strip("#").strip()
        if l:
            return l
    return ""


def needs_of(path):
    if not os.path.exists(path):
        return ""
    txt = open(path).read()
    m = re.search(r"(?is)(what it needs[^\n]*\n.*?)(\n#|\n\*\*|\Z)", txt)
    if m:
        return " ".join(m.group(1).split())[:700]
    return ""


def main():
    ids = sys.argv[1:] or sorted(d for d in os.listdir(SEEDED) if re.match(r"C\d\d-", d) and os.path.isdir(os.path.join(SEEDED, d)))
    remarks = json.load(open(NOTES_OVERRIDE)) if os.path.exists(NOTES_OVERRIDE) else {}
    head = subprocess.check_output(["git", "-C", "/repo", "rev-parse", "--short", "HEAD"]).decode().strip()
    rows = []
    for i in ids:
        d = os.path.join(SEEDED, i)
        prop = i[:3]
        meta = {"id": i, "property": prop, "repo_head": head, "date": time.strftime("%Y-%m-%d")}
        meta["summary"] = first_line(os.path.join(d, "NOTES.md"))
        meta["needs_to_manifest"] = needs_of(os.path.join(d, "NOTES.md"))
        meta["patch"] = os.path.basename(seedcheck.patch_of(d))
        if i in remarks:
            meta["remark"] = remarks[i]
        if remarks.get(i, "").startswith("obsolete"):
            meta["status"] = "obsolete"
            meta["ran"] = []
        else:
            v = None
            if os.environ.get("SEEDMETA_REUSE_VERIFY"):
                # reuse an earlier confirmation of the same patch file (verify.json of the delivery, or the last meta.json)
                pf = seedcheck.patch_of(d)
                for cand in ("verify.json", "meta.json"):
                    cp = os.path.join(d, cand)
                    if os.path.exists(cp) and os.path.getmtime(cp) >= os.path.getmtime(pf):
                        old = json.load(open(cp))
                        old = old.get("confirmed") if isinstance(old.get("confirmed"), dict) else old
                        if old.get("confirmed") is True:
                            v = old
                            break
            if v is None:
                v = seedcheck.verify(d)
            meta["confirmed"] = {k: v.get(k) for k in ("demo_without_patch", "build_with_patch", "suite_with_patch", "demo_with_patch", "confirmed")}
            checks = [prop] + remarks.get(i + ":also", [])
            res = seedcheck.run(d, "quick", checks)
            meta["ran"] = ["tools/seedcheck.py verify seeded/%s" % i] + ["tools/seedcheck.py run seeded/%s quick %s" % (i, " ".join(checks))]
            meta["detection"] = [{"check": r["check"], "exit": r["exit"], "signatures": [x.split(":")[0] for x in r["violations"]]} for r in res]
            caught = any(r["exit"] == 1 for r in res)
            meta["status"] = "caught" if caught else "missed"
            if not v.get("confirmed"):
                meta["status"] = "unconfirmed"
        with open(os.path.join(d, "meta.json"), "w") as f:
            json.dump(meta, f, indent=1)
        # the per-run evidence/replay scratch is not kept
        subprocess.run(["rm", "-rf", os.path.join(d, "runs")])
        rows.append(meta)
        print(i, meta["status"], [x["signatures"] for x in meta.get("detection", [])])
        sys.stdout.flush()
    # summary table over everything that has a meta.json
    out = ["| id | property | status | caught by (signatures) | change |", "|---|---|---|---|---|"]
    for i in sorted(d for d in os.listdir(SEEDED) if os.path.exists(os.path.join(SEEDED, d, "meta.json"))):
        m = json.load(open(os.path.join(SEEDED, i, "meta.json")))
        sigs = "; ".join("%s: %s" % (x["check"], ", ".join(x["signatures"][:3])) for x in m.get("detection", []) if x["exit"] == 1)
        out.append("| %s | %s | %s | %s | %s |" % (i, m["property"], m["status"], sigs, (m.get("summary") or "")[:110].replace("|", "/")))
    with open(os.path.join(SEEDED, "RESULTS.md"), "w") as f:
        f.write("\n".join(out) + "\n")


if __name__ == "__main__":
    main()
