#!/usr/bin/env python3
"""Seeded-change bookkeeping (DESIGN section 14).

  seedcheck.py verify <dir>              confirm a candidate change in a scratch worktree of /repo:
                                         without the patch: suite passes, demonstration passes;
                                         with the patch: builds, suite passes, demonstration FAILS
  seedcheck.py run <dir> <tier> <Cnn>... run the named checks against /repo + patch (scratch worktree,
                                         VERIF_REPO), evidence and replays go to <dir>/runs/, /verif's own
                                         evidence is not touched; prints one line per check
A candidate directory holds patch.diff, one zz_demo_*_test.go and WHERE (package dir of the demo).
Nothing here is used by the registered checks."""
import json
import os
import shutil
import subprocess
import sys
import tempfile

HERE = os.path.dirname(os.path.dirname(os.path.abspath(__file__)))
REPO = "/repo"


def sh(cmd, cwd=None, env=None, timeout=3600):
    p = subprocess.run(cmd, cwd=cwd, env=env, shell=isinstance(cmd, str), stdout=subprocess.PIPE, stderr=subprocess.STDOUT, timeout=timeout)
    return p.returncode, p.stdout.decode("utf-8", "replace")


def worktree():
    d = tempfile.mkdtemp(prefix="eio-seed-", dir="/tmp")
    os.rmdir(d)
    rc, out = sh(["git", "-C", REPO, "worktree", "add", "--detach", d, "HEAD"])
    if rc != 0:
        sys.exit("worktree add failed: " + out)
    return d


def drop(d):
    sh(["git", "-C", REPO, "worktree", "remove", "--force", d])
    shutil.rmtree(d, ignore_errors=True)
    sh(["git", "-C", REPO, "worktree", "prune"])


def goenv():
    e = dict(os.environ)
    e["GOPROXY"] = "off"
    e["GOFLAGS"] = "-mod=mod"
    return e


def patch_of(d):
    """patch.diff as delivered, or patch.rebased.diff when /repo has moved on (a later fix: commit touched the same lines)"""
    r = os.path.join(d, "patch.rebased.diff")
    return r if os.path.exists(r) else os.path.join(d, "patch.diff")


def demo_of(d):
    demos = [f for f in os.listdir(d) if f.endswith("_test.go")]
    if len(demos) != 1:
        sys.exit("expected exactly one *_test.go in " + d)
    where = open(os.path.join(d, "WHERE")).read().strip().strip("/").strip()
    return demos[0], where


def verify(d):
    d = os.path.abspath(d)
    demo, where = demo_of(d)
    src = open(os.path.join(d, demo)).read()
    import re
    m = re.search(r"func (TestDemo\w*)\(", src)
    tname = m.group(1) if m else "TestDemo"
    wt = worktree()
    res = {}
    try:
        env = goenv()
        shutil.copy(os.path.join(d, demo), os.path.join(wt, where, demo))
        rc, out = sh(["go", "test", "-vet=off", "-count=1", "-run", "^" + tname + "$", "-timeout", "300s", "./" + where + "/"], cwd=wt, env=env)
        res["demo_without_patch"] = "pass" if rc == 0 else "FAIL"
        res["demo_without_patch_tail"] = out[-600:]
        os.remove(os.path.join(wt, where, demo))
        rc, out = sh(["git", "apply", patch_of(d)], cwd=wt)
        if rc != 0:
            res["apply"] = "FAIL " + out
            return res
        rc, out = sh(["go", "build", "./..."], cwd=wt, env=env)
        res["build_with_patch"] = "ok" if rc == 0 else "FAIL " + out[-800:]
        rc, out = sh(["go", "test", "-vet=off", "-count=1", "./..."], cwd=wt, env=env)
        res["suite_with_patch"] = "pass" if rc == 0 else "FAIL " + out[-1500:]
        shutil.copy(os.path.join(d, demo), os.path.join(wt, where, demo))
        rc, out = sh(["go", "test", "-vet=off", "-count=1", "-run", "^" + tname + "$", "-timeout", "300s", "./" + where + "/"], cwd=wt, env=env)
        res["demo_with_patch"] = "fail (as required)" if rc != 0 else "PASSES (not a valid demonstration)"
        res["demo_with_patch_tail"] = out[-600:]
        rc, out = sh(["git", "diff", "--stat"], cwd=wt)
        res["diffstat"] = out.strip().splitlines()[-1] if out.strip() else ""
    finally:
        drop(wt)
    res["confirmed"] = (res.get("demo_without_patch") == "pass" and res.get("build_with_patch") == "ok"
                        and res.get("suite_with_patch") == "pass" and res.get("demo_with_patch", "").startswith("fail"))
    return res


def run(d, tier, props):
    d = os.path.abspath(d)
    wt = worktree()
    out_rows = []
    try:
        rc, out = sh(["git", "apply", patch_of(d)], cwd=wt)
        if rc != 0:
            sys.exit("patch does not apply: " + out)
        runs = os.path.join(d, "runs")
        os.makedirs(runs, exist_ok=True)
        env = dict(os.environ)
        env.update({"VERIF_REPO": wt, "VERIF_EVIDENCE_DIR": runs, "VERIF_REPLAYS_DIR": runs})
        for p in props:
            rc, out = sh([os.path.join(HERE, "check"), p, tier], cwd=HERE, env=env, timeout=7200)
            viol = [l for l in out.splitlines() if l.startswith("violation signature=")]
            row = {"check": p, "tier": tier, "exit": rc, "violations": [v[len("violation signature="):][:400] for v in viol]}
            ev = os.path.join(runs, p + ".json")
            if os.path.exists(ev):
                e = json.load(open(ev))
                row["runs"] = e["coverage"]["evaluations"]
                row["other_property_observations"] = e["coverage"].get("other_property_observations")
                row["known_findings_observed"] = e["coverage"].get("known_findings_observed")
            if rc == 2:
                row["trouble"] = out[-1500:]
            out_rows.append(row)
            print(json.dumps(row)[:3000])
            sys.stdout.flush()
    finally:
        drop(wt)
    return out_rows


if __name__ == "__main__":
    if len(sys.argv) >= 3 and sys.argv[1] == "verify":
        r = verify(sys.argv[2])
        print(json.dumps(r, indent=1))
        sys.exit(0 if r.get("confirmed") else 1)
    if len(sys.argv) >= 5 and sys.argv[1] == "run":
        rows = run(sys.argv[2], sys.argv[3], sys.argv[4:])
        sys.exit(0)
    print(__doc__)
    sys.exit(2)
