#!/bin/bash
# usage: tools/rp.sh PROP SIGSUBSTR [grep-pattern]   dump the newest matching replay
f=$(ls -t /verif/replays/$1-*$2*.json 2>/dev/null | head -1)
[ -z "$f" ] && { echo "no replay"; exit 1; }
echo "FILE $f"
python3 - "$f" <<'P'
import json,sys
r=json.load(open(sys.argv[1]))
sc=r['scenario']
print("SIG", r['signature']); print("MSG", r['message'][:400]); print("MIN", r.get('minimised'))
print("OPTS", sc['opts'], "ATTACH", sc.get('attach'), "faultFree", sc.get('faultFree'), "horizon", sc.get('horizonMs'))
for c in sc.get('clients') or []: print("CLIENT", json.dumps(c)[:600])
print("APP", json.dumps(sc.get('app'))[:800]); print("REENT", sc.get('reent'))
for k in ('timers','wt','cont'):
    if sc.get(k): print(k.upper(), json.dumps(sc[k])[:1200])
P
cd /verif && VERIF_DUMP=1 ./check $1 --replay $f 2>&1 | grep -v "initial_headers\|headers \"\|srv-drain\|http-wh" | grep -E "${3:-.}" | cut -c1-210
