#!/usr/bin/env python3
"""Regenerate seeded/RESULTS.md from the meta.json files that exist (tools/seedmeta.py writes them)."""
import json
import os

HERE = os.path.dirname(os.path.dirname(os.path.abspath(__file__)))
SEEDED = os.path.join(HERE, "seeded")
out = ["| id | property | status | repo head | caught by (signatures) | change |", "|---|---|---|---|---|---|"]
n = {}
for i in sorted(d for d in os.listdir(SEEDED) if os.path.exists(os.path.join(SEEDED, d, "meta.json"))):
    m = json.load(open(os.path.join(SEEDED, i, "meta.json")))
    sigs = "; ".join("%s: %s" % (x["check"], ", ".join(x["signatures"][:3])) for x in m.get("detection", []) if x["exit"] == 1)
    n[m["status"]] = n.get(m["status"], 0) + 1
    out.append("| %s | %s | %s | %s | %s | %s |" % (i, m["property"], m["status"], m.get("repo_head", ""), sigs, (m.get("summary") or "")[:110].replace("|", "/")))
out.append("")
out.append("totals: " + ", ".join("%s %d" % (k, v) for k, v in sorted(n.items())))
open(os.path.join(SEEDED, "RESULTS.md"), "w").write("\n".join(out) + "\n")
print(n)
