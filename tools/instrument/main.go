// Command instrument rewrites a scratch copy of zishang520/engine.io so that
// every source of scheduling nondeterminism goes through package simrt.
//
// usage: instrument <dir-of-scratch-copy>
//
// Rewrites (text splices at token offsets, the original text is kept):
//   - simrt.Yield(site) before every statement of every function body
//   - go f(a...)            -> simrt.GoN(site, f, a...) (args evaluated in the parent)
//   - x.Lock()/Unlock()/... -> simrt.MLock(&x) ...   (sync.Mutex, sync.RWMutex, also promoted)
//   - once.Do(f)            -> simrt.OnceDo(&once, f)
//   - select{case <-c...}   -> simulator-ordered polling of ready cases, then blocking select
//   - for k,v := range map  -> iteration over sorted keys
//
// A file that cannot be handled is left untouched and reported on stdout as
// "WARN ..." (coarser schedules, still a valid run).
package main

import (
	"fmt"
	"go/ast"
	"go/token"
	"go/types"
	"os"
	"path/filepath"
	"sort"
	"strings"

	"golang.org/x/tools/go/packages"
)

const simrtPath = "github.com/zishang520/engine.io/v2/simrt"

var want = map[string]bool{"engine": true, "transports": true, "types": true, "utils": true, "events": true, "webtransport": true}

type edit struct {
	off, del int
	text     string
	seq      int
}

type inst struct {
	pkg   *packages.Package
	fset  *token.FileSet
	src   []byte
	root  string
	sites *[]string
	edits []edit
	fn    string // enclosing function while walking
	warn  []string
}

func (in *inst) off(p token.Pos) int { return in.fset.Position(p).Offset }

func (in *inst) add(off, del int, text string) {
	in.edits = append(in.edits, edit{off, del, text, len(in.edits)})
}

func (in *inst) text(n ast.Node) string { return string(in.src[in.off(n.Pos()):in.off(n.End())]) }

func (in *inst) site(pos token.Pos, kind string) int {
	p := in.fset.Position(pos)
	rel, err := filepath.Rel(in.root, p.Filename)
	if err != nil {
		rel = p.Filename
	}
	*in.sites = append(*in.sites, fmt.Sprintf("%s:%d\t%s\t%s", rel, p.Line, in.fn, kind))
	return len(*in.sites)
}

var lockNames = map[string]string{
	"(*sync.Mutex).Lock": "MLock", "(*sync.Mutex).Unlock": "MUnlock",
	"(*sync.RWMutex).Lock": "WLock", "(*sync.RWMutex).Unlock": "WUnlock",
	"(*sync.RWMutex).RLock": "RLock", "(*sync.RWMutex).RUnlock": "RUnlock",
	"(*sync.Mutex).TryLock": "MTryLock",
	"(*sync.Once).Do":       "OnceDo",
}

func (in *inst) lockRewrite(c *ast.CallExpr) {
	se, ok := c.Fun.(*ast.SelectorExpr)
	if !ok {
		return
	}
	sel := in.pkg.TypesInfo.Selections[se]
	if sel == nil || sel.Kind() != types.MethodVal {
		return
	}
	f, ok := sel.Obj().(*types.Func)
	if !ok {
		return
	}
	name := lockNames[f.FullName()]
	if name == "" {
		return
	}
	recv := in.text(se.X)
	t := in.pkg.TypesInfo.TypeOf(se.X)
	// walk the embedding path for promoted methods
	idx := sel.Index()
	for _, i := range idx[:len(idx)-1] {
		if p, ok := t.Underlying().(*types.Pointer); ok {
			t = p.Elem()
		}
		st, ok := t.Underlying().(*types.Struct)
		if !ok {
			in.warn = append(in.warn, "cannot resolve promoted lock at "+in.fset.Position(c.Pos()).String())
			return
		}
		fld := st.Field(i)
		recv = "(" + recv + ")." + fld.Name()
		t = fld.Type()
	}
	if _, isPtr := t.Underlying().(*types.Pointer); !isPtr {
		recv = "&" + recv
	}
	sep := ""
	if len(c.Args) > 0 {
		sep = ", "
	}
	in.add(in.off(c.Pos()), in.off(c.Lparen)+1-in.off(c.Pos()), "simrt."+name+"("+recv+sep)
}

func (in *inst) goRewrite(g *ast.GoStmt) {
	site := in.site(g.Pos(), "go")
	call := g.Call
	simple := len(call.Args) <= 4 && call.Ellipsis == token.NoPos
	if simple {
		if sig, ok := in.pkg.TypesInfo.TypeOf(call.Fun).Underlying().(*types.Signature); !ok || sig.Results().Len() != 0 || sig.Variadic() {
			simple = false
		}
		for _, a := range call.Args {
			if tv, ok := in.pkg.TypesInfo.Types[a]; ok && tv.Value != nil {
				simple = false // untyped constants may not infer
			}
			if tv, ok := in.pkg.TypesInfo.Types[a]; ok && tv.IsNil() {
				simple = false
			}
		}
	}
	if !simple {
		in.add(in.off(g.Go), 2, fmt.Sprintf("simrt.Go(%d, func() {", site))
		in.add(in.off(g.End()), 0, " })")
		return
	}
	// go F(a, b) -> simrt.Go2(site, F, a, b)
	in.add(in.off(g.Go), in.off(call.Fun.Pos())-in.off(g.Go), fmt.Sprintf("simrt.Go%d(%d, ", len(call.Args), site))
	if len(call.Args) == 0 {
		in.add(in.off(call.Lparen), in.off(call.Rparen)+1-in.off(call.Lparen), ")")
	} else {
		in.add(in.off(call.Lparen), 1, ", ")
	}
}

func (in *inst) list(list []ast.Stmt) {
	for _, s := range list {
		switch s.(type) {
		case *ast.EmptyStmt, *ast.CaseClause, *ast.CommClause:
			continue
		}
		in.add(in.off(s.Pos()), 0, fmt.Sprintf("simrt.Yield(%d); ", in.site(s.Pos(), "stmt")))
	}
}

func hasCall(n ast.Node) bool {
	found := false
	ast.Inspect(n, func(m ast.Node) bool {
		switch m.(type) {
		case *ast.CallExpr:
			found = true
		case *ast.FuncLit:
			return false
		}
		return !found
	})
	return found
}

func (in *inst) plainBool(e ast.Expr) bool {
	t := in.pkg.TypesInfo.TypeOf(e)
	if t == nil {
		return false
	}
	b, ok := t.(*types.Basic)
	return ok && (b.Kind() == types.Bool || b.Kind() == types.UntypedBool)
}

// shortCircuit puts a scheduling point between the operands of && and || when the right operand calls
// something: `a() && b()` is a check-then-act window like any pair of statements (a goroutine can be
// pre-empted between the two calls), so the simulator must be able to pre-empt there too.
func (in *inst) shortCircuit(b *ast.BinaryExpr) {
	if (b.Op != token.LAND && b.Op != token.LOR) || !hasCall(b.Y) || !hasCall(b.X) {
		return
	}
	if !in.plainBool(b.X) || !in.plainBool(b.Y) {
		return
	}
	if tv, ok := in.pkg.TypesInfo.Types[b]; ok && tv.Value != nil {
		return // constant expression
	}
	site := in.site(b.Y.Pos(), "expr")
	if b.Op == token.LAND {
		in.add(in.off(b.Y.Pos()), 0, fmt.Sprintf("simrt.YieldT(%d) && ", site))
	} else {
		in.add(in.off(b.Y.Pos()), 0, fmt.Sprintf("simrt.YieldF(%d) || ", site))
	}
}

// ifInit: `if x := load(); test(x)` - a scheduling point between the init statement and the condition.
func (in *inst) ifInit(s *ast.IfStmt) {
	if s.Init == nil || s.Cond == nil || !hasCall(s.Init) || !hasCall(s.Cond) || !in.plainBool(s.Cond) {
		return
	}
	site := in.site(s.Cond.Pos(), "expr")
	in.add(in.off(s.Cond.Pos()), 0, fmt.Sprintf("simrt.YieldT(%d) && (", site))
	in.add(in.off(s.Cond.End()), 0, ")")
}

// selectRewrite turns a receive-only select into: poll ready cases in a
// simulator-chosen order, else block on the original select; then dispatch.
func (in *inst) selectRewrite(sel *ast.SelectStmt, labeled bool) {
	pos := in.fset.Position(sel.Pos()).String()
	if labeled {
		in.warn = append(in.warn, "labeled select left to the runtime at "+pos)
		return
	}
	var chans []string
	var clauses []*ast.CommClause
	for _, st := range sel.Body.List {
		cc := st.(*ast.CommClause)
		clauses = append(clauses, cc)
		if cc.Comm == nil {
			chans = append(chans, "")
			continue
		}
		es, ok := cc.Comm.(*ast.ExprStmt)
		if !ok {
			in.warn = append(in.warn, "select with send/assign case left to the runtime at "+pos)
			return
		}
		ue, ok := es.X.(*ast.UnaryExpr)
		if !ok || ue.Op != token.ARROW {
			in.warn = append(in.warn, "select with odd case left to the runtime at "+pos)
			return
		}
		chans = append(chans, in.text(ue.X))
	}
	// break inside a clause body would now leave the dispatch switch, which has
	// the same effect (leaves the statement); fine.
	site := in.site(sel.Pos(), "select")
	var b strings.Builder
	b.WriteString("{ _simIdx := -1; ")
	for i, c := range chans {
		if c != "" {
			fmt.Fprintf(&b, "_simC%d := %s; ", i, c)
		}
	}
	fmt.Fprintf(&b, "for _, _simK := range simrt.SelectOrder(%d, %d) { switch _simK { ", site, len(chans))
	for i, c := range chans {
		if c != "" {
			fmt.Fprintf(&b, "case %d: select { case <-_simC%d: _simIdx = %d; default: }; ", i, i, i)
		}
	}
	b.WriteString("}; if _simIdx >= 0 { break } }; if _simIdx < 0 { select { ")
	for i, c := range chans {
		if c != "" {
			fmt.Fprintf(&b, "case <-_simC%d: _simIdx = %d; ", i, i)
		} else {
			fmt.Fprintf(&b, "default: _simIdx = %d; ", i)
		}
	}
	b.WriteString("} }; switch _simIdx {")
	in.add(in.off(sel.Select), in.off(sel.Body.Lbrace)+1-in.off(sel.Select), b.String())
	for i, cc := range clauses {
		in.add(in.off(cc.Case), in.off(cc.Colon)+1-in.off(cc.Case), fmt.Sprintf("case %d:", i))
	}
	in.add(in.off(sel.Body.Rbrace)+1, 0, " }")
}

// rangeRewrite makes iteration over a Go map deterministic (sorted keys).
func (in *inst) rangeRewrite(r *ast.RangeStmt, labeled bool) {
	t := in.pkg.TypesInfo.TypeOf(r.X)
	if t == nil {
		return
	}
	if _, ok := t.Underlying().(*types.Map); !ok {
		return
	}
	pos := in.fset.Position(r.Pos()).String()
	if labeled || (r.Tok == token.ASSIGN && (r.Key != nil || r.Value != nil)) {
		in.warn = append(in.warn, "map range left unordered at "+pos)
		return
	}
	name := func(e ast.Expr) string {
		if e == nil {
			return "_"
		}
		return in.text(e)
	}
	k, v := name(r.Key), name(r.Value)
	kk := k
	if kk == "_" {
		kk = "_simK"
	}
	x := in.text(r.X)
	var b strings.Builder
	fmt.Fprintf(&b, "{ _simM := %s; for _, %s := range simrt.SortedKeys(_simM) { ", x, kk)
	if v == "_" {
		fmt.Fprintf(&b, "if _, _simOk := _simM[%s]; !_simOk { continue }; ", kk)
	} else {
		fmt.Fprintf(&b, "%s, _simOk := _simM[%s]; if !_simOk { continue }; ", v, kk)
	}
	in.add(in.off(r.For), in.off(r.Body.Lbrace)+1-in.off(r.For), b.String())
	in.add(in.off(r.Body.Rbrace)+1, 0, " }")
}

func (in *inst) file(f *ast.File) []byte {
	labeled := map[ast.Stmt]bool{}
	ast.Inspect(f, func(n ast.Node) bool {
		if l, ok := n.(*ast.LabeledStmt); ok {
			labeled[l.Stmt] = true
		}
		return true
	})
	for _, d := range f.Decls {
		fd, ok := d.(*ast.FuncDecl)
		if !ok || fd.Body == nil {
			continue
		}
		in.fn = fd.Name.Name
		if fd.Recv != nil && len(fd.Recv.List) == 1 {
			rt := in.text(fd.Recv.List[0].Type)
			in.fn = strings.TrimLeft(rt, "*") + "." + fd.Name.Name
			if i := strings.Index(in.fn, "["); i >= 0 { // generic receiver
				in.fn = in.fn[:i] + "." + fd.Name.Name
			}
		}
		ast.Inspect(fd.Body, func(n ast.Node) bool {
			switch x := n.(type) {
			case *ast.SelectStmt:
				in.selectRewrite(x, labeled[x])
			case *ast.RangeStmt:
				in.rangeRewrite(x, labeled[x])
			case *ast.CallExpr:
				in.lockRewrite(x)
			case *ast.GoStmt:
				in.goRewrite(x)
			case *ast.BinaryExpr:
				in.shortCircuit(x)
			case *ast.IfStmt:
				in.ifInit(x)
			case *ast.BlockStmt:
				in.list(x.List)
			case *ast.CaseClause:
				in.list(x.Body)
			case *ast.CommClause:
				in.list(x.Body)
			}
			return true
		})
	}
	if len(in.edits) == 0 {
		return nil
	}
	in.add(in.off(f.Name.End()), 0, `; import simrt "`+simrtPath+`"`)
	sort.SliceStable(in.edits, func(i, j int) bool {
		if in.edits[i].off != in.edits[j].off {
			return in.edits[i].off < in.edits[j].off
		}
		return in.edits[i].seq < in.edits[j].seq
	})
	var out []byte
	pos := 0
	for _, e := range in.edits {
		if e.off < pos {
			// overlapping edits: give up on this file
			in.warn = append(in.warn, fmt.Sprintf("overlapping edits at offset %d", e.off))
			return nil
		}
		out = append(out, in.src[pos:e.off]...)
		out = append(out, e.text...)
		pos = e.off + e.del
	}
	return append(out, in.src[pos:]...)
}

// instrumentDir instruments the packages of one module directory whose package
// name is in names; site ids continue in sites.
func instrumentDir(dir string, names map[string]bool, sites *[]string, root string) int {
	cfg := &packages.Config{Mode: packages.NeedName | packages.NeedFiles | packages.NeedSyntax | packages.NeedTypes | packages.NeedTypesInfo | packages.NeedImports | packages.NeedDeps, Dir: dir}
	pkgs, err := packages.Load(cfg, "./...")
	if err != nil {
		fmt.Println("FATAL load:", err)
		os.Exit(2)
	}
	bad := false
	for _, p := range pkgs {
		for _, e := range p.Errors {
			fmt.Println("FATAL typecheck:", e)
			bad = true
		}
	}
	if bad {
		os.Exit(2)
	}
	n := 0
	sort.Slice(pkgs, func(i, j int) bool { return pkgs[i].PkgPath < pkgs[j].PkgPath })
	for _, p := range pkgs {
		if !names[p.Name] || strings.HasSuffix(p.PkgPath, "/simrt") {
			continue
		}
		for _, f := range p.Syntax {
			name := p.Fset.Position(f.Package).Filename
			if strings.HasSuffix(name, "_test.go") {
				continue
			}
			src, err := os.ReadFile(name)
			if err != nil {
				fmt.Println("FATAL read:", err)
				os.Exit(2)
			}
			before := len(*sites)
			in := &inst{pkg: p, fset: p.Fset, src: src, sites: sites, root: root}
			out := in.file(f)
			for _, w := range in.warn {
				fmt.Println("WARN", w)
			}
			if out == nil {
				*sites = (*sites)[:before]
				continue
			}
			if err := os.WriteFile(name, out, 0o644); err != nil {
				fmt.Println("FATAL write:", err)
				os.Exit(2)
			}
			n++
		}
	}
	return n
}

// usage: instrument <repo-copy> [<extra-module-dir>:<pkgname,pkgname>...]
func main() {
	dir, _ := filepath.Abs(os.Args[1])
	var sites []string
	n := instrumentDir(dir, want, &sites, dir)
	for _, extra := range os.Args[2:] {
		f := strings.SplitN(extra, ":", 2)
		d, _ := filepath.Abs(f[0])
		names := map[string]bool{}
		if len(f) > 1 {
			for _, x := range strings.Split(f[1], ",") {
				names[x] = true
			}
		}
		n += instrumentDir(d, names, &sites, dir)
	}
	var gen strings.Builder
	gen.WriteString("package simrt\n\nfunc init() { SiteTable = []string{\"\",\n")
	for _, s := range sites {
		fmt.Fprintf(&gen, "\t%q,\n", s)
	}
	gen.WriteString("} }\n")
	if err := os.WriteFile(filepath.Join(dir, "simrt", "sites_gen.go"), []byte(gen.String()), 0o644); err != nil {
		fmt.Println("FATAL write:", err)
		os.Exit(2)
	}
	fmt.Printf("instrumented %d files, %d sites\n", n, len(sites))
}
