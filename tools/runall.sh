#!/bin/bash
# usage: tools/runall.sh quick|thorough [props...]  -> one line per check
tier=${1:-quick}; shift
props=${@:-C01 C02 C03 C04 C05 C06 C07 C08 C09 C10 C11 C12 C13 C14 C15 C16 C17 C18 C19 C20}
cd /verif
for p in $props; do
  s=$(date +%s)
  ./check $p $tier > /tmp/check-$p.log 2>&1; rc=$?
  e=$(date +%s)
  echo "$p rc=$rc $((e-s))s $(grep -c '^VIOLATION' /tmp/check-$p.log) violations, $(grep -c '^KNOWN-FINDING' /tmp/check-$p.log) known; $(grep '^runs=' /tmp/check-$p.log | cut -c1-90)"
done
