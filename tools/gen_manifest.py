#!/usr/bin/env python3
"""Regenerates /verif/MANIFEST.json from vlib/props.py (claimed checks) and
properties.jsonl (everything else goes to not_applicable with its reason)."""
import json
import os
import sys

HERE = os.path.dirname(os.path.dirname(os.path.abspath(__file__)))
sys.path.insert(0, HERE)
from vlib import props as P  # noqa: E402

ids = [json.loads(l)["id"] for l in open(os.path.join(HERE, "properties.jsonl")) if l.strip()]

checks = []
for pid in ids:
    if pid not in P.PROPS:
        continue
    c = P.PROPS[pid]
    checks.append({
        "property_id": pid,
        "quick_cmd": "./check %s quick" % pid,
        "thorough_cmd": "./check %s thorough" % pid,
        "evidence_file": "evidence/%s.json" % pid,
        "replay_cmd_template": "./check %s --replay {path}" % pid,
        "engine": "dst",
        "level_claimed": {
            "category": c["level"],
            "text": c.get("level_text", P.LEVEL_TEXT),
            "design_ref": "DESIGN.md section 6, " + pid,
        },
        "level_note": c.get("level_note", P.LEVEL_NOTE),
        "technique": c.get("technique", "deterministic simulation with fault injection: seeded search over schedules, faults and inputs; reference-model and history oracles; minimised replay files"),
    })

na = []
for pid in ids:
    if pid not in P.PROPS:
        na.append({"property_id": pid, "reason": P.NOT_CLAIMED.get(pid, "check not built yet (work in progress; see DESIGN.md section 6)")})

manifest = {
    "version": 1,
    "setup_cmd": "./check build",
    "hooks": {
        "guard": "verif",
        "enable": "no hook is committed in /repo: every check rsyncs /repo's current working tree to a scratch directory, runs tools/instrument over it (simrt.Yield before every statement, go/Lock/Once/select/map-range rewritten to simrt calls) and compiles the harness against that copy; the build tag 'verif' is reserved should a hand-placed hook become necessary",
        "baseline_off_cmd": "cd /repo && GOFLAGS=-mod=mod go test -vet=off -count=1 ./...",
        "source_commits": [],
        "add_only": True,
    },
    "engines": [{
        "name": "dst",
        "path": "sim/ simrt/ tools/instrument/ check vlib/",
        "serves_properties": [c["property_id"] for c in checks],
        "kind_free_text": "deterministic simulation with fault injection: whole server in one testing/synctest bubble, baton scheduler over build-time inserted yield points, simulated clients/network/application, seeded policies, replay + minimisation",
    }],
    "checks": checks,
    "notes": "Exit codes of every command: 0 held, 1 violation (VIOLATION line), 2 tool trouble. Known findings are in known_findings.json and are printed as KNOWN-FINDING lines. VERIF_SEED, VERIF_BUDGET_S and VERIF_WORKERS are honoured.",
    "not_applicable": na,
}
with open(os.path.join(HERE, "MANIFEST.json"), "w") as f:
    json.dump(manifest, f, indent=1)
print("MANIFEST.json: %d checks, %d not claimed" % (len(checks), len(na)))
