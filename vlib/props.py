"""Per-property configuration shared by ./check and the MANIFEST generator."""

REAL_DEFAULT = [
    "all of /repo (engine, transports, types, utils, events, webtransport, config, errors, log) - statement-instrumented copy of the current working tree",
    "gorilla/websocket Upgrader and Conn (server side)",
    "engine.io-go-parser, brotli, zstd, gzip, flate",
    "Go runtime timers and channels (testing/synctest fake clock)",
]
STUBS_DEFAULT = [
    "TCP/TLS listeners and net/http connection serving (contract modelled: one goroutine per request, context cancelled on return/abort, Hijack)",
    "the TCP connection under gorilla (in-memory duplex stream with fault injection)",
    "browser-side stacks (own RFC 6455 / Engine.IO codecs in sim/ref, written from the specifications)",
]

SESSION_RULE = ("scenario i = GenSession(property, splitmix64(VERIF_SEED,i)): server options, 1-4 clients (transport, revision incl. absent/2/5 EIO parameter, b64, JSONP, "
                "latency, fragmentation, pong delays, unsolicited pongs, data requests with or without Content-Length, payload character classes (markup, escapes, multi-byte, digits), "
                "upgrade time, scripted / concurrent / retried upgrade candidates, fault plan), application sends/closes, slow or re-entrant listeners, scheduling policy (fifo+k, random walk, PCT, "
                "site-biased) all drawn from the run PRNG; a run is distinct by the hash of its (task,site) hand-off sequence and event history; "
                "non-trivial = at least 20 baton hand-offs")

COMMON_ASSUME = [
    "pre-emption is at statement granularity inside /repo and at call granularity inside dependencies",
    "computation takes zero virtual time (one legal timing)",
    "sampling, not enumeration: a clean batch is evidence, not proof",
]

PROPS = {}


def _p(pid, level="exploration", quick=60, thorough=1200, rule=SESSION_RULE, assume=None, **kw):
    kw.setdefault("quick_runs", 32000)
    PROPS[pid] = dict(level=level, quick_s=quick, thorough_s=thorough, rule=rule, assumptions=COMMON_ASSUME + (assume or []), **kw)


_p("C03", assume=["a close reason is accepted when the environment had armed that cause before the close (any of several racing causes)"])
_p("C04", assume=["quiescent point = no task runnable at the current virtual instant"])

LEVEL_TEXT = ("exploration: seeded search over schedules x fault sequences x inputs of the real code inside a deterministic simulator; every "
              "run is checked against reference models / history oracles; a failure comes with a minimised replay file that reproduces bit-for-bit. "
              "Appropriate because the property quantifies over interleavings, timer instants and connection faults that tests cannot place; "
              "it is evidence by sampling, not a proof.")
LEVEL_NOTE = ("trusted: Go runtime + testing/synctest fake clock, the instrumenter (validated per build by running the repository's own tests on the "
              "instrumented copy in free-run mode), the hand-written reference codecs in sim/ref; dependencies are pre-empted only at call boundaries; "
              "the network/HTTP layer is a model of net/http's handler contract")
NOT_CLAIMED = {}

_p("C01", quick_runs=24000, assume=["liveness is judged only in fault-free runs whose session stayed open and whose client kept reading; sends issued in the last 300 ms are exempt"])
_p("C02", assume=["only well-formed payloads built by the reference encoders are submitted (hostile bytes belong to C09)"])
_p("C06", quick_runs=24000)
_p("C07", assume=["exact virtual-time equality; at exact ties (pong processed at the deadline instant) both outcomes are accepted", "upgrade completion between a ping and its deadline is excluded, as the property says"])
_p("C08", assume=["outcome-based: never guesses server-internal ordering"])
_p("C11", assume=["two requests overlap at the server when the second handler started before the first was answered"])
_p("C12", assume=["bounded time = max(30 s close timeout, pingInterval+pingTimeout) + 1 s"])
_p("C16", quick_runs=24000, assume=["a coding listed with q=0 is counted in the evidence, not flagged (weakest reading of 'names')"])
_p("C17", quick_runs=24000, assume=["preflight requests are exercised by the C05 admission scenarios"])
_p("C18", assume=["a deadlock is a task waiting for a lock or Once it already holds, reported by simrt with its stack"])

TIMER_RULE = ("scenario i = GenTimers(splitmix64(VERIF_SEED,i)): 1-5 timers (timeout/interval, period 1-50 ms), 2-6 tasks issuing "
              "create/refresh/stop/clear at instants on a grid around the due instants (before, exactly at, after; concurrent duplicates), callbacks that take virtual time or cancel their own timer, "
              "statement-level pre-emption inside utils/timer.go; distinct by schedule+history hash")
_p("C19", quick=40, thorough=900, rule=TIMER_RULE, quick_runs=96000,
   real=["utils/timer.go (instrumented)", "Go runtime timers and channels"], stubs=["the clock (testing/synctest)"],
   assume=["refresh after a cancellation is outside the statement and not judged", "a call at exactly the due instant may go either way unless the cancellation had already returned (event order)"])
CONT_RULE = ("scenario i = GenCont(splitmix64(VERIF_SEED,i)): one of {map, slice, set} concurrent histories (2-8 tasks, <=3 keys, unique values, <=28 ops) "
             "checked with porcupine against sequential models; emitter concurrent histories with an interval-order oracle; Yeast/GenerateId from "
             "several tasks inside one virtual millisecond and, with the stalled-task fault, across millisecond boundaries; single-task contract sequences (aliasing, invalid indices, nil listeners, listeners removing listeners during an emit) - the last kind has "
             "no schedule in it and is seeded model-based generation, claimed as such")
_p("C20", quick=40, thorough=900, rule=CONT_RULE, quick_runs=96000,
   real=["types/map.go, types/slice.go, types/set.go, types/events.go, utils/yeast.go, utils/base64id.go (instrumented)"], stubs=["none"],
   assume=["porcupine 'Unknown' (timeout) is counted as inconclusive, never reported", "listeners are distinct function literals (the emitter identifies functions by code pointer)"])

WT_RULE = ("scenario i = GenWT(property, splitmix64(VERIF_SEED,i)): two webtransport.Conn values (roles, read/write buffer sizes, buffer pool drawn) joined by an "
           "in-memory stream that fragments reads; C13/C14: 1-8 messages of both kinds with lengths on every boundary (0,125,126,127,65535,65536, 1x/2x write buffer +-2, random to 300 KiB) "
           "through WriteMessage / NextWriter+Write / WriteString / ReadFrom / WritePreparedMessage with seeded chunkings; C14 also reference-encoded streams with non-minimal length forms; "
           "C15: valid corpora truncated at offset (i mod len) and faulted at read offset (i mod len) - consecutive runs enumerate every offset - plus mutated, random and 64-bit-length streams, read limits, partial consumption")
WT_REAL = ["webtransport/conn.go, webtransport/prepared.go (instrumented)", "webtransport-go Session (real, created by webtransport.Server.Upgrade over http3/quic interface fakes)"]
WT_STUBS = ["the QUIC stream under the Conn (in-memory stream with fragmentation and fault injection)", "quic-go connection, HTTP/3 framing"]
_p("C13", quick=40, thorough=900, rule=WT_RULE, quick_runs=64000, real=WT_REAL, stubs=WT_STUBS)
_p("C14", quick=40, thorough=900, rule=WT_RULE, quick_runs=64000, real=WT_REAL, stubs=WT_STUBS,
   assume=["the encoder half is a pure function of (kind, payload, path, buffer size): decided by observation at the simulated wire; the simulator adds the fragmentation dimension on the decoder side"])
_p("C15", level="fault_enumeration", quick=40, thorough=900, rule=WT_RULE, quick_runs=64000, real=WT_REAL, stubs=WT_STUBS,
   level_text=("fault_enumeration for the truncation/stream-error clause: for each generated valid corpus the stream is cut / faulted at offset (run index mod length), so a batch of "
               "consecutive run indices covers every byte offset; the remaining clauses (arbitrary bytes, limits, partial consumption) are seeded exploration"),
   assume=["the documented 1000-reads panic guard is never provoked (at most 10 reads after the first error)", "a 64-bit length with the top bit set must be rejected; any other length is legal"])

ADM_RULE = ("scenario i = GenAdmission(splitmix64(VERIF_SEED,i)): attach-option shape (none, server-only, path with/without slash, addTrailingSlash on/off), enabled transports, "
            "allowEIO3, allow-request hook, failing middleware, CORS; 0-2 canary sessions (one possibly upgrading, one closing); a raw client issues 4-30 requests from the grammar "
            "(path variants, method, transport/EIO/j/b64/garbage parameters, sid unknown/closed/other-transport, Origin bytes incl. control characters, plain vs WebSocket upgrade), "
            "each compared with a reference of path matching and check precedence")
_p("C05", quick=60, thorough=1200, rule=ADM_RULE, quick_runs=32000,
   assume=["the decision itself is a function of (options, request, registry): the simulator contributes the registry/upgrade states and the non-interference clause; the pure part is a seeded input sweep, claimed as such",
           "prefix matching applies when the mount path ends in a slash, exact matching otherwise (weakest reading)",
           "requests racing with the opening/closing of the session they name are not judged"])

HOSTILE_RULE = ("scenario i = GenHostile(splitmix64(VERIF_SEED,i)): 1-2 canary sessions plus 1-2 raw clients generated from the protocol grammar with mutated fields: "
                "polling sessions with mutated / truncated / inflated payloads of both revisions (string, binary and JSONP forms, every packet type, invalid UTF-8 and base64), "
                "overlapping and aborted requests, upgrade candidates whose EIO differs from the handshake, WebSocket sessions fed raw frames (reserved opcodes, fragmented control frames, huge lengths), "
                "WebTransport sessions with hostile handshake packets; the engine.io-go-parser dependency is vendored and instrumented so that its decode loops are pre-emptible and counted")
_p("C09", quick=90, thorough=1800, rule=HOSTILE_RULE, quick_runs=24000,
   real=REAL_DEFAULT + ["engine.io-go-parser (vendored next to the scratch copy and statement-instrumented like the repository)"],
   assume=["grammar-based seeded mutation inside the simulator replaces coverage-guided byte fuzzing (stated in DESIGN.md)",
           "work out of proportion = more than 3,000,000 yield points or the hand-off limit in one run whose clients send a few kilobytes; a wall-clock watchdog (30 s) backs it up for loops without yield points",
           "a panic in any goroutine counts (net/http would recover one in a handler goroutine, the property's wording does not)"])
LIMIT_RULE = ("scenario i = GenLimits(splitmix64(VERIF_SEED,i)): maxHttpBufferSize in {1,10,100,1000,100000}; a raw client posts bodies of limit-1, limit, limit+1, limit+2, 2*limit, +100 KB, +1 MiB "
              "with declared or unknown Content-Length, single or multi-packet, revision 3 or 4, or sends WebSocket frames (also fragmented) / WebTransport frames of those sizes, next to canary sessions")
_p("C10", quick=60, thorough=1200, rule=LIMIT_RULE, quick_runs=32000,
   assume=["'a constant number of bytes' is read as 64 KiB"])
