"""Per-property configuration shared by ./check and the MANIFEST generator."""

REAL_DEFAULT = [
    "all of /repo (engine, transports, types, utils, events, webtransport, config, errors, log) - statement-instrumented copy of the current working tree",
    "gorilla/websocket Upgrader and Conn (server side)",
    "engine.io-go-parser, brotli, zstd, gzip, flate",
    "Go runtime timers and channels (testing/synctest fake clock)",
]
STUBS_DEFAULT = [
    "TCP/TLS listeners and net/http connection serving (contract modelled: one goroutine per request, context cancelled on return/abort, Hijack)",
    "the TCP connection under gorilla (in-memory duplex stream with fault injection)",
    "browser-side stacks (own RFC 6455 / Engine.IO codecs in sim/ref, written from the specifications)",
]

SESSION_RULE = ("scenario i = GenSession(property, splitmix64(VERIF_SEED,i)): server options, 1-4 clients (transport, revision, b64, JSONP, "
                "latency, fragmentation, pong delays, upgrade time, fault plan), application sends/closes, scheduling policy (fifo+k, random walk, PCT, "
                "site-biased) all drawn from the run PRNG; a run is distinct by the hash of its (task,site) hand-off sequence and event history; "
                "non-trivial = at least 20 baton hand-offs")

COMMON_ASSUME = [
    "pre-emption is at statement granularity inside /repo and at call granularity inside dependencies",
    "computation takes zero virtual time (one legal timing)",
    "sampling, not enumeration: a clean batch is evidence, not proof",
]

PROPS = {}


def _p(pid, level="exploration", quick=60, thorough=1200, rule=SESSION_RULE, assume=None, **kw):
    PROPS[pid] = dict(level=level, quick_s=quick, thorough_s=thorough, rule=rule, assumptions=COMMON_ASSUME + (assume or []), **kw)


_p("C03", assume=["a close reason is accepted when the environment had armed that cause before the close (any of several racing causes)"])
_p("C04", assume=["quiescent point = no task runnable at the current virtual instant"])

LEVEL_TEXT = ("exploration: seeded search over schedules x fault sequences x inputs of the real code inside a deterministic simulator; every "
              "run is checked against reference models / history oracles; a failure comes with a minimised replay file that reproduces bit-for-bit. "
              "Appropriate because the property quantifies over interleavings, timer instants and connection faults that tests cannot place; "
              "it is evidence by sampling, not a proof.")
LEVEL_NOTE = ("trusted: Go runtime + testing/synctest fake clock, the instrumenter (validated per build by running the repository's own tests on the "
              "instrumented copy in free-run mode), the hand-written reference codecs in sim/ref; dependencies are pre-empted only at call boundaries; "
              "the network/HTTP layer is a model of net/http's handler contract")
NOT_CLAIMED = {}
