"""Build step (DESIGN 3.1): instrument a scratch copy of /repo's working tree and
compile the simulation harness against it.  Result is cached by content hash."""
import fcntl
import hashlib
import os
import shutil
import subprocess
import sys
import tempfile
import time

VERIF = os.path.dirname(os.path.dirname(os.path.abspath(__file__)))
REPO = os.environ.get("VERIF_REPO", "/repo")
GOROOT_BIN = "/opt/veriftools/go1.26.8/bin"
BUILD = os.path.join(VERIF, ".build")


def goenv():
    e = dict(os.environ)
    e["PATH"] = GOROOT_BIN + ":" + e.get("PATH", "")
    e["GOFLAGS"] = "-mod=mod"
    e["GOPROXY"] = "off"
    e["GOSUMDB"] = "off"
    e["GOTOOLCHAIN"] = "local"
    e.pop("GOROOT", None)
    e.pop("GOWORK", None)
    return e


class BuildError(Exception):
    pass


def _files(root, exts, skip=()):
    out = []
    for d, dirs, files in os.walk(root):
        dirs[:] = sorted(x for x in dirs if x not in (".git", ".build", "node_modules") and x not in skip)
        for f in sorted(files):
            if f.endswith(exts):
                out.append(os.path.join(d, f))
    return out


def tree_hash():
    h = hashlib.sha256()
    for root, exts in ((REPO, (".go", "go.mod", "go.sum", ".s")),
                       (os.path.join(VERIF, "sim"), (".go", "go.mod", ".s")),
                       (os.path.join(VERIF, "simrt"), (".go", ".s")),
                       (os.path.join(VERIF, "tools", "instrument"), (".go", "go.mod"))):
        for p in _files(root, exts):
            h.update(os.path.relpath(p, root).encode() + b"\0")
            with open(p, "rb") as f:
                h.update(hashlib.sha256(f.read()).digest())
    return h.hexdigest()[:24]


def run(cmd, cwd, env, log, timeout=1800):
    log.write("$ %s   (cwd=%s)\n" % (" ".join(cmd), cwd))
    log.flush()
    p = subprocess.run(cmd, cwd=cwd, env=env, stdout=subprocess.PIPE, stderr=subprocess.STDOUT, timeout=timeout)
    out = p.stdout.decode("utf-8", "replace")
    log.write(out)
    log.flush()
    return p.returncode, out


def parser_src(rdir, env, log):
    """Directory of the engine.io-go-parser module the tree under test uses (module cache)."""
    rc, out = run(["go", "list", "-m", "-f", "{{.Dir}}", "github.com/zishang520/engine.io-go-parser"], rdir, env, log)
    d = out.strip().splitlines()[-1] if out.strip() else ""
    if rc != 0 or not os.path.isdir(d):
        return None
    return d


def ensure_instrumenter(env, log):
    tool = os.path.join(VERIF, "tools", "instrument", "instrument")
    src = os.path.join(VERIF, "tools", "instrument", "main.go")
    if not os.path.exists(tool) or os.path.getmtime(tool) < os.path.getmtime(src):
        rc, out = run(["go", "build", "-o", "instrument", "."], os.path.join(VERIF, "tools", "instrument"), env, log)
        if rc != 0:
            raise BuildError("cannot build instrumenter:\n" + out)
    return tool


def build(verbose=False, gate=True):
    """Returns (path to sim.test, build dir, info dict). Raises BuildError."""
    os.makedirs(BUILD, exist_ok=True)
    lock = open(os.path.join(BUILD, "lock"), "w")
    fcntl.flock(lock, fcntl.LOCK_EX)
    try:
        key = tree_hash()
        bdir = os.path.join(BUILD, key)
        binp = os.path.join(bdir, "sim.test")
        if os.path.exists(binp) and os.path.exists(os.path.join(bdir, "ok")):
            os.utime(bdir, None)
            return binp, bdir, {"cached": True, "key": key}
        if os.path.isdir(bdir):
            shutil.rmtree(bdir)
        os.makedirs(bdir)
        t0 = time.time()
        env = goenv()
        log = open(os.path.join(bdir, "build.log"), "w")
        tool = ensure_instrumenter(env, log)
        keep = os.environ.get("VERIF_KEEP_SCRATCH")
        scratch = tempfile.mkdtemp(prefix="eio-verif-")
        try:
            rdir = os.path.join(scratch, "repo")
            rc, out = run(["rsync", "-a", "--exclude", ".git", REPO + "/", rdir + "/"], "/", env, log)
            if rc != 0:
                raise BuildError("rsync failed:\n" + out)
            # the untouched tree must compile, otherwise this is not a verdict on the property
            rc, out = run(["go", "build", "./..."], rdir, env, log)
            if rc != 0:
                raise BuildError("the tree under test does not compile:\n" + out[-3000:])
            os.makedirs(os.path.join(rdir, "simrt"))
            for f in os.listdir(os.path.join(VERIF, "simrt")):
                if f.endswith((".go", ".s")) and not f.endswith("_test.go"):
                    shutil.copy(os.path.join(VERIF, "simrt", f), os.path.join(rdir, "simrt", f))
            with open(os.path.join(rdir, "simrt", "sites_gen.go"), "w") as f:
                f.write("package simrt\n")
            # the engine.io parser dependency is vendored next to the copy and instrumented too, so that
            # its decode loops have yield points (work-budget clause of C09, inbound interleavings of C02)
            pdir = os.path.join(rdir, "_deps", "eioparser")
            extra = []
            psrc = parser_src(rdir, env, log)
            if psrc:
                shutil.copytree(psrc, pdir)
                for d, _, fs in os.walk(pdir):
                    os.chmod(d, 0o755)
                    for f in fs:
                        os.chmod(os.path.join(d, f), 0o644)
                with open(os.path.join(pdir, "go.mod"), "a") as f:
                    f.write("\nrequire github.com/zishang520/engine.io/v2 v2.0.0-00010101000000-000000000000\nreplace github.com/zishang520/engine.io/v2 => ../..\n")
                if os.path.exists(os.path.join(rdir, "go.sum")):
                    shutil.copy(os.path.join(rdir, "go.sum"), os.path.join(pdir, "go.sum"))
                with open(os.path.join(rdir, "go.mod"), "a") as f:
                    f.write("\nreplace github.com/zishang520/engine.io-go-parser => ./_deps/eioparser\n")
                extra = [pdir + ":parser,utils,types,packet"]
            rc, out = run([tool, rdir] + extra, rdir, env, log)
            if rc != 0:
                raise BuildError("instrumenter failed:\n" + out[-3000:])
            warns = [l for l in out.splitlines() if l.startswith("WARN")]
            shutil.copy(os.path.join(rdir, "simrt", "sites_gen.go"), os.path.join(bdir, "sites_gen.go"))
            if gate:
                # validity gate: the repository's own tests pass on the instrumented copy in free-run mode
                rc, out = run(["go", "test", "-vet=off", "-count=1", "-timeout", "20m", "./..."], rdir, env, log)
                if rc != 0:
                    raise BuildError("repository tests fail on the instrumented copy (free-run mode):\n" + out[-3000:])
            # harness
            mod = open(os.path.join(VERIF, "sim", "go.mod")).read()
            mod = mod.replace("=> /placeholder/repo", "=> " + rdir)
            if psrc:
                mod += "\nreplace github.com/zishang520/engine.io-go-parser => " + pdir + "\n"
            modfile = os.path.join(bdir, "go.mod")
            with open(modfile, "w") as f:
                f.write(mod)
            sums = open(os.path.join(REPO, "go.sum")).read()
            extra = os.path.join(VERIF, "sim", "go.sum.extra")
            if os.path.exists(extra):
                sums += open(extra).read()
            with open(os.path.join(bdir, "go.sum"), "w") as f:
                f.write(sums)
            rc, out = run(["go", "test", "-c", "-vet=off", "-modfile=" + modfile, "-o", binp, "."], os.path.join(VERIF, "sim"), env, log)
            if rc != 0 or not os.path.exists(binp):
                raise BuildError("harness does not compile against the instrumented tree:\n" + out[-4000:])
        finally:
            if keep:
                dst = "/tmp/eio-dev"
                shutil.rmtree(dst, ignore_errors=True)
                shutil.move(scratch, dst)
            else:
                shutil.rmtree(scratch, ignore_errors=True)
        with open(os.path.join(bdir, "ok"), "w") as f:
            f.write("built in %.1fs\n%s\n" % (time.time() - t0, "\n".join(warns)))
        # evict old builds (keep the 4 most recent)
        ents = sorted((os.path.getmtime(os.path.join(BUILD, d)), d) for d in os.listdir(BUILD)
                      if os.path.isdir(os.path.join(BUILD, d)) and not d.startswith("verif-out-"))
        # (never a build that was used in the last 15 minutes: another check may be running on it)
        for mt, d in ents[:-4]:
            if time.time() - mt > 900:
                shutil.rmtree(os.path.join(BUILD, d), ignore_errors=True)
        return binp, bdir, {"cached": False, "key": key, "build_s": round(time.time() - t0, 1), "warnings": warns}
    finally:
        fcntl.flock(lock, fcntl.LOCK_UN)
        lock.close()


if __name__ == "__main__":
    try:
        b, d, info = build(verbose=True)
        print(b, info)
    except BuildError as e:
        print("BUILD-ERROR:", e)
        sys.exit(2)
