package simrt

import (
	"fmt"
	"math"
	"math/rand/v2"
	"sort"
)

// PolicySpec is the serialisable description of a scheduling policy.
type PolicySpec struct {
	Kind string  `json:"kind"`           // fifo | rw | pct | site
	P    float64 `json:"p,omitempty"`    // rw/site: pre-emption probability per yield
	K    int     `json:"k,omitempty"`    // fifo: number of pre-emptions; pct: depth
	YEst int     `json:"yest,omitempty"` // estimate of yields per run for placing change points
	Q    float64 `json:"q,omitempty"`    // site: pre-emption probability at hot sites
	Seed uint64  `json:"seed"`
	// stalled task (fault "slow or stalled node"): a pre-empted task may in addition lose StallMs of
	// virtual time before it becomes runnable again, so that clocks and timers move under it in the
	// middle of a function.  Off (0) for the families whose oracles compare exact instants.
	StallP  float64 `json:"stallP,omitempty"`
	StallMs int     `json:"stallMs,omitempty"`
}

type policy struct {
	spec   PolicySpec
	rng    *rand.Rand
	points []int // global yield ordinals of forced pre-emptions (fifo, pct)
	demote *Task
	low    int64
}

// NewPolicy builds an exploring Source from spec.
func NewPolicy(spec PolicySpec) Source {
	p := &policy{spec: spec, rng: rand.New(rand.NewPCG(spec.Seed, 0x9e3779b97f4a7c15))}
	if spec.Kind == "fifo" || spec.Kind == "pct" {
		yest := spec.YEst
		if yest <= 0 {
			yest = 10000
		}
		for i := 0; i < spec.K; i++ {
			p.points = append(p.points, p.rng.IntN(yest))
		}
		sort.Ints(p.points)
	}
	return p
}

func (p *policy) WantYield() bool { return p.spec.Kind == "site" && p.spec.Q > 0 }

func (p *policy) geometric(prob float64) int {
	if prob <= 0 {
		return -1
	}
	if prob >= 1 {
		return 0
	}
	u := p.rng.Float64()
	if u <= 0 {
		u = 1e-12
	}
	return int(math.Log(u) / math.Log(1-prob))
}

func (p *policy) toNextPoint(s *Sched) int {
	for len(p.points) > 0 && p.points[0] < s.Yields {
		p.points = p.points[1:]
	}
	if len(p.points) == 0 {
		return -1
	}
	b := p.points[0] - s.Yields
	p.points = p.points[1:]
	return b
}

func (p *policy) Next(s *Sched, ready []*Task) (int, int) {
	idx, b := p.next(s, ready)
	if p.spec.StallP > 0 && p.spec.StallMs > 0 && b >= 0 && p.rng.Float64() < p.spec.StallP {
		s.NextStall = 1 + p.rng.IntN(p.spec.StallMs)
	}
	return idx, b
}

func (p *policy) next(s *Sched, ready []*Task) (int, int) {
	switch p.spec.Kind {
	case "rw", "site":
		return p.rng.IntN(len(ready)), p.geometric(p.spec.P)
	case "pct":
		if p.demote != nil && s.LastPreempted {
			p.low--
			p.demote.Prio = p.low
		}
		p.demote = nil
		best := 0
		for i, t := range ready {
			if t.Prio > ready[best].Prio {
				best = i
			}
		}
		b := p.toNextPoint(s)
		if b >= 0 {
			p.demote = ready[best]
		}
		return best, b
	default: // fifo: the task parked longest runs next
		best := 0
		for i, t := range ready {
			if t.parkSeq < ready[best].parkSeq {
				best = i
			}
		}
		return best, p.toNextPoint(s)
	}
}

func (p *policy) AtYield(s *Sched, t *Task, site int) bool {
	return p.rng.Float64() < p.spec.Q
}

func (p *policy) Select(s *Sched, site, n int) int {
	if p.spec.Kind == "fifo" && p.spec.K == 0 {
		return 0
	}
	return p.rng.IntN(n)
}

func (p *policy) NewTask(s *Sched, t *Task) {
	if p.spec.Kind == "pct" {
		t.Prio = 1 + p.rng.Int64N(1<<40)
	}
}

// Replay is a Source that follows a recorded tape.
type Replay struct {
	Tape   []Turn
	Sel    []int
	Strict bool
	i, j   int
	prev   *Turn
}

func (r *Replay) WantYield() bool                 { return false }
func (r *Replay) AtYield(*Sched, *Task, int) bool { return false }
func (r *Replay) NewTask(*Sched, *Task)           {}
func (r *Replay) Select(s *Sched, site, n int) int {
	if r.j < len(r.Sel) {
		k := r.Sel[r.j]
		r.j++
		if k >= n {
			if r.Strict {
				s.Diverged = fmt.Sprintf("select #%d: recorded rotation %d for %d-way select", r.j, k, n)
			}
			return 0
		}
		return k
	}
	if r.Strict {
		s.Diverged = fmt.Sprintf("select #%d not on tape", r.j+1)
	}
	return 0
}

func (r *Replay) Next(s *Sched, ready []*Task) (int, int) {
	if r.Strict && r.prev != nil {
		if r.prev.Y != s.LastTurnY || r.prev.P != s.LastPreempted {
			s.Diverged = fmt.Sprintf("turn %d of %s: recorded %d yields (pre-empted=%v), executed %d (pre-empted=%v)", r.i, r.prev.L, r.prev.Y, r.prev.P, s.LastTurnY, s.LastPreempted)
			return 0, -1
		}
	}
	if r.i >= len(r.Tape) {
		r.prev = nil
		if r.Strict {
			s.Diverged = fmt.Sprintf("tape exhausted after %d turns but %d task(s) ready (first %s)", r.i, len(ready), ready[0].Label)
			return 0, -1
		}
		// lenient: continue fifo without pre-emption
		best := 0
		for i, t := range ready {
			if t.parkSeq < ready[best].parkSeq {
				best = i
			}
		}
		return best, -1
	}
	w := &r.Tape[r.i]
	r.i++
	r.prev = w
	idx := -1
	for i, t := range ready {
		if t.Label == w.L {
			idx = i
			break
		}
	}
	if idx < 0 {
		if r.Strict {
			s.Diverged = fmt.Sprintf("turn %d: recorded task %s is not ready", r.i, w.L)
			return 0, -1
		}
		r.prev = nil
		best := 0
		for i, t := range ready {
			if t.parkSeq < ready[best].parkSeq {
				best = i
			}
		}
		return best, -1
	}
	b := -1
	if w.P {
		b = w.Y - 1
		if b < 0 {
			b = 0
		}
		s.NextStall = w.Z
	}
	return idx, b
}

// Done reports whether the whole tape was consumed.
func (r *Replay) Done() bool { return r.i >= len(r.Tape) }
