// Package simrt is the runtime that instrumented engine.io code calls into.
//
// With no scheduler installed (free-run mode) every function here passes
// straight through to the operation it replaced, so the instrumented tree
// behaves like the shipped one (the repository's own tests are run that way as
// a validity gate).  With a scheduler installed, exactly one task runs at a
// time ("baton"), and every scheduling decision is taken by a Source: a seeded
// policy while exploring, a recorded tape while replaying.
package simrt

import (
	"fmt"
	"hash/fnv"
	"runtime/debug"
	"sort"
	"strings"
	"sync"
	"sync/atomic"
	"testing/synctest"
	"time"
	"unsafe"
)

func getg() uintptr

// SiteTable is filled by the generated sites_gen.go: "file:line\tfunc\tkind".
var SiteTable []string

// Task is one goroutine under the scheduler's control.
type Task struct {
	Label     string
	resume    chan struct{}
	pred      func() bool // nil = ready
	site      int
	nchild    map[int]int
	dead      bool
	settle    bool
	Prio      int64 // for priority policies
	noPreempt bool
	parkSeq   uint64
	holding   int // number of sim-locks held (diagnostics)
	atomic    int // >0: inside simrt.Atomic - yields neither count nor pre-empt
}

type lockState struct {
	owner   *Task
	readers map[*Task]int
	wwait   int // parked writers (writer preference of sync.RWMutex)
}

// Turn is one entry of the schedule tape: which task got the baton and how
// many yields it passed before it was pre-empted (Pre) or blocked by itself.
type Turn struct {
	L string `json:"l"`           // task label
	Y int    `json:"y"`           // yields executed in the turn
	P bool   `json:"p,omitempty"` // ended by forced pre-emption
	S int    `json:"s,omitempty"` // site at which the task was resumed (informational)
	Z int    `json:"z,omitempty"` // stall: virtual milliseconds the task loses after its forced pre-emption
}

// Source takes every scheduling decision.
type Source interface {
	// Next picks one of ready (sorted by label, len>=1) and the number of
	// yields the task may pass before being pre-empted (<0: unlimited).
	Next(s *Sched, ready []*Task) (idx int, budget int)
	// AtYield is consulted at every yield of the baton holder when
	// WantYield is true; returning true pre-empts now.
	AtYield(s *Sched, t *Task, site int) bool
	WantYield() bool
	// Select returns a rotation for the polling order of an n-way select.
	Select(s *Sched, site, n int) int
	// NewTask lets priority policies initialise t.Prio.
	NewTask(s *Sched, t *Task)
}

// Sched is one simulated execution.
type Sched struct {
	mu     sync.Mutex // protects everything below; never held across a park
	byG    map[uintptr]*Task
	parked map[*Task]bool
	alive  map[*Task]bool
	cur    *Task
	kick   chan struct{}
	src    Source
	locks  map[unsafe.Pointer]*lockState
	onces  map[unsafe.Pointer]*Task
	start  time.Time
	rootN  int
	pseq   uint64

	budget    int // yields left in the current turn (<0 unlimited)
	turnY     int // yields executed in the current turn
	wantYield bool

	// records
	Tape      []Turn
	Selects   []int
	KeepTape  bool
	Yields    int
	Preempts  int
	Steps     int
	Fail      []Failure
	TraceHash uint64 // FNV-1a over (label, site) at baton hand-offs
	Diverged  string // set by replay sources on strict divergence
	Hot       []bool // site-indexed: sites where AtYield is consulted
	SiteHits  map[int]int

	NoPre      []bool // site-indexed: yields that are counted but never pre-empt (vendored dependencies)
	LastSite   int    // site of the most recent yield of the baton holder
	MaxYields  int    // stop the run once this many yield points were passed (0 = no limit)
	overBudget bool

	// hooks (run on the scheduler goroutine; must only touch harness state)
	OnStep func() bool // return false to stop the run
	// OnQuiescent is run as a task when no task is ready, before the clock moves.
	OnQuiescent func()
	quiesceBusy bool
	tapeOpen    bool
	counted     bool
	turnPre     bool
	// LastTurnY / LastPreempted describe the turn that just ended (for sources).
	LastTurnY     int
	LastPreempted bool
	StopFlag      atomic.Bool
	// NextStall is set by the source when it issues a turn: if the turn ends by forced pre-emption the
	// task sleeps that many virtual milliseconds before it parks (fault: stalled task)
	NextStall int
	Stalls    int
	StallMs   int // virtual milliseconds lost to stalls so far
}

// Failure is a violation-grade runtime event (panic, self-deadlock ...).
type Failure struct {
	Kind  string
	Task  string
	Msg   string
	Stack string
}

var active atomic.Pointer[Sched]

// Progress counts scheduler hand-offs and yields of the whole process; the wall-clock watchdog of the
// worker uses it to tell a task that spins in code without yield points from a run that is merely long.
var Progress atomic.Uint64

// Active reports whether a scheduler is installed.
func Active() bool { return active.Load() != nil }

// Cur returns the active scheduler (nil in free-run mode).
func Cur() *Sched { return active.Load() }

func (s *Sched) me() *Task {
	g := getg()
	s.mu.Lock()
	t := s.byG[g]
	s.mu.Unlock()
	return t
}

// CurLabel returns the label of the calling task ("" if unmanaged).
func CurLabel() string {
	s := active.Load()
	if s == nil {
		return ""
	}
	if t := s.me(); t != nil {
		return t.Label
	}
	return ""
}

// Now is the virtual time since the start of the run.
func Now() time.Duration {
	s := active.Load()
	if s == nil {
		return 0
	}
	return time.Since(s.start)
}

func (s *Sched) kickIt() {
	select {
	case s.kick <- struct{}{}:
	default:
	}
}

// park blocks the calling task until the scheduler hands it the baton.
func (s *Sched) park(t *Task, pred func() bool, site int) {
	s.mu.Lock()
	t.pred = pred
	t.site = site
	t.parkSeq = 0 // numbered by the scheduler in label order (park order of concurrent wake-ups is real-time order)
	s.parked[t] = true
	if s.cur == t {
		s.cur = nil
	}
	s.mu.Unlock()
	s.kickIt()
	<-t.resume
	s.mu.Lock()
	s.byG[getg()] = t
	s.mu.Unlock()
}

// Yield is inserted in front of every statement of instrumented code.
// YieldT / YieldF are scheduling points inside boolean expressions (between the operands of && / ||,
// between an if statement's init and its condition); they do not change the value of the expression.
func YieldT(site int) bool { Yield(site); return true }
func YieldF(site int) bool { Yield(site); return false }

func Yield(site int) {
	s := active.Load()
	if s == nil {
		return
	}
	g := getg()
	s.mu.Lock()
	t := s.byG[g]
	if t == nil {
		s.mu.Unlock()
		return // unmanaged goroutine
	}
	if s.cur == t {
		if t.atomic > 0 {
			// an observation of the harness (sampling a session's state for an event record): not a scheduling point
			s.mu.Unlock()
			return
		}
		s.Yields++
		Progress.Add(1)
		s.LastSite = site
		if site > 0 && site < len(s.NoPre) && s.NoPre[site] && !(s.MaxYields > 0 && s.Yields > s.MaxYields) {
			// dependency code: counted for the work budget, never a pre-emption point
			s.mu.Unlock()
			return
		}
		s.turnY++
		pre := false
		if s.MaxYields > 0 && s.Yields > s.MaxYields {
			s.overBudget = true
			pre = true
		}
		if s.budget >= 0 {
			if s.budget == 0 {
				pre = true
			} else {
				s.budget--
			}
		}
		if !pre && s.wantYield && !t.noPreempt && site > 0 && site < len(s.Hot) && s.Hot[site] {
			s.mu.Unlock()
			pre = s.src.AtYield(s, t, site)
			s.mu.Lock()
		}
		if !pre {
			s.mu.Unlock()
			return
		}
		s.Preempts++
		s.turnPre = true
		stall := 0
		if !s.overBudget && !t.noPreempt {
			stall = s.NextStall
		}
		s.NextStall = 0
		if s.KeepTape && s.tapeOpen {
			s.Tape[len(s.Tape)-1].P = true
			s.Tape[len(s.Tape)-1].Z = stall
		}
		if stall > 0 {
			s.Stalls++
			s.StallMs += stall
			s.mu.Unlock()
			// durably blocked inside the bubble: the scheduler runs the other tasks and, when none is
			// runnable, lets the clock advance; afterwards this goroutine is no longer the baton holder
			time.Sleep(time.Duration(stall) * time.Millisecond)
			s.park(t, nil, site)
			return
		}
	}
	s.mu.Unlock()
	s.park(t, nil, site)
}

// Atomic runs f without scheduling points: the yields of instrumented code called from f neither count nor
// pre-empt.  For the harness's own observations (reading several fields of a session for one event record),
// which must be a consistent snapshot taken at the instant the event is numbered.  f must not block.
func Atomic(f func()) {
	s := active.Load()
	if s == nil {
		f()
		return
	}
	t := s.me()
	if t == nil {
		f()
		return
	}
	t.atomic++
	defer func() { t.atomic-- }()
	f()
}

// Settle parks the caller and lets every goroutine it may have woken (in
// un-instrumented dependencies) run until it blocks; the caller is then
// resumed without a scheduling decision.
func Settle() {
	s := active.Load()
	if s == nil {
		return
	}
	t := s.me()
	if t == nil {
		return
	}
	s.mu.Lock()
	isCur := s.cur == t
	if isCur {
		t.settle = true
	}
	s.mu.Unlock()
	s.park(t, nil, -6)
}

func (s *Sched) newTask(label string) *Task {
	t := &Task{Label: label, resume: make(chan struct{})}
	s.alive[t] = true
	return t
}

func (s *Sched) spawn(site int, f func()) {
	parent := s.me()
	s.mu.Lock()
	var label string
	if parent != nil {
		if parent.nchild == nil {
			parent.nchild = map[int]int{}
		}
		parent.nchild[site]++
		label = fmt.Sprintf("%s/%d#%d", parent.Label, site, parent.nchild[site])
	} else {
		s.rootN++
		label = fmt.Sprintf("~root/%d#%d", site, s.rootN)
	}
	t := s.newTask(label)
	s.mu.Unlock()
	s.src.NewTask(s, t)
	go s.runTask(t, site, f)
}

// Go replaces a go statement.
func Go(site int, f func()) {
	s := active.Load()
	if s == nil {
		go f()
		return
	}
	s.spawn(site, f)
}

func Go0(site int, f func())              { Go(site, f) }
func Go1[A any](site int, f func(A), a A) { Go(site, func() { f(a) }) }
func Go2[A, B any](site int, f func(A, B), a A, b B) {
	Go(site, func() { f(a, b) })
}
func Go3[A, B, C any](site int, f func(A, B, C), a A, b B, c C) {
	Go(site, func() { f(a, b, c) })
}
func Go4[A, B, C, D any](site int, f func(A, B, C, D), a A, b B, c C, d D) {
	Go(site, func() { f(a, b, c, d) })
}

// GoLabel spawns a harness actor with an explicit, stable label.
func (s *Sched) GoLabel(label string, f func()) {
	s.mu.Lock()
	t := s.newTask(label)
	s.mu.Unlock()
	s.src.NewTask(s, t)
	go s.runTask(t, 0, f)
}

// GoActor spawns a labelled harness actor from inside a running task.
func GoActor(label string, f func()) {
	s := active.Load()
	if s == nil {
		panic("simrt.GoActor without scheduler")
	}
	s.GoLabel(label, f)
}

func (s *Sched) runTask(t *Task, site int, f func()) {
	s.mu.Lock()
	s.byG[getg()] = t
	s.mu.Unlock()
	defer func() {
		if r := recover(); r != nil {
			msg := fmt.Sprint(r)
			if !strings.HasPrefix(msg, "simrt: abort") {
				s.fail(Failure{Kind: "panic", Task: t.Label, Msg: msg, Stack: string(debug.Stack())})
			}
		}
		s.mu.Lock()
		t.dead = true
		delete(s.alive, t)
		delete(s.parked, t)
		if s.byG[getg()] == t {
			delete(s.byG, getg())
		}
		if s.cur == t {
			s.cur = nil
		}
		s.mu.Unlock()
		s.kickIt()
	}()
	s.park(t, nil, site)
	f()
}

func (s *Sched) fail(f Failure) {
	s.mu.Lock()
	s.Fail = append(s.Fail, f)
	s.mu.Unlock()
}

// Block parks the calling task until pred holds (evaluated by the scheduler
// while every task is stopped, so it needs no locking of its own).
func Block(pred func() bool) {
	s := active.Load()
	if s == nil {
		panic("simrt.Block without scheduler")
	}
	t := s.me()
	if t == nil {
		panic("simrt.Block from unmanaged goroutine")
	}
	s.park(t, pred, -1)
}

// IsTask reports whether the caller is a managed task.
func IsTask() bool {
	s := active.Load()
	return s != nil && s.me() != nil
}

// Sleep lets virtual time pass for the calling task.
func Sleep(d time.Duration) {
	if d > 0 {
		time.Sleep(d)
	}
	Yield(-2)
}

// Abort unwinds the calling task silently (used to stop actors at end of run).
func Abort() { panic("simrt: abort") }

// ---- locks -----------------------------------------------------------------

func (s *Sched) ls(p unsafe.Pointer) *lockState {
	st := s.locks[p]
	if st == nil {
		st = &lockState{readers: map[*Task]int{}}
		s.locks[p] = st
	}
	return st
}

func acquire(p unsafe.Pointer, write bool, real func(), kind string) {
	s := active.Load()
	if s == nil {
		real()
		return
	}
	t := s.me()
	if t == nil {
		real()
		return
	}
	waiting := false
	for {
		s.mu.Lock()
		st := s.ls(p)
		free := st.owner == nil && (!write || len(st.readers) == 0)
		if free && !write && st.wwait > 0 && st.readers[t] == 0 {
			free = false // a parked writer blocks new readers
		}
		if free {
			if waiting && write {
				st.wwait--
			}
			if write {
				st.owner = t
			} else {
				st.readers[t]++
			}
			t.holding++
			s.mu.Unlock()
			real() // uncontended by construction
			return
		}
		if st.owner == t || (write && st.readers[t] > 0) || (!write && st.readers[t] > 0 && st.wwait > 0) {
			s.Fail = append(s.Fail, Failure{Kind: "self-deadlock", Task: t.Label, Msg: kind + " re-entered by its holder", Stack: string(debug.Stack())})
			s.mu.Unlock()
			panic("simrt: abort (self-deadlock)")
		}
		if write && !waiting {
			st.wwait++
		}
		waiting = true
		s.mu.Unlock()
		s.park(t, func() bool {
			st := s.ls(p)
			if write {
				return st.owner == nil && len(st.readers) == 0
			}
			return st.owner == nil && (st.wwait == 0 || st.readers[t] > 0)
		}, -3)
	}
}

func release(p unsafe.Pointer, write bool, real func()) {
	s := active.Load()
	if s == nil {
		real()
		return
	}
	t := s.me()
	if t == nil {
		real()
		return
	}
	s.mu.Lock()
	st := s.ls(p)
	if write {
		st.owner = nil
	} else {
		st.readers[t]--
		if st.readers[t] <= 0 {
			delete(st.readers, t)
		}
	}
	t.holding--
	s.mu.Unlock()
	real()
}

func MLock(m *sync.Mutex)     { acquire(unsafe.Pointer(m), true, m.Lock, "sync.Mutex") }
func MUnlock(m *sync.Mutex)   { release(unsafe.Pointer(m), true, m.Unlock) }
func WLock(m *sync.RWMutex)   { acquire(unsafe.Pointer(m), true, m.Lock, "sync.RWMutex") }
func WUnlock(m *sync.RWMutex) { release(unsafe.Pointer(m), true, m.Unlock) }
func RLock(m *sync.RWMutex)   { acquire(unsafe.Pointer(m), false, m.RLock, "sync.RWMutex(R)") }
func RUnlock(m *sync.RWMutex) { release(unsafe.Pointer(m), false, m.RUnlock) }

func MTryLock(m *sync.Mutex) bool {
	s := active.Load()
	if s == nil {
		return m.TryLock()
	}
	t := s.me()
	if t == nil {
		return m.TryLock()
	}
	s.mu.Lock()
	st := s.ls(unsafe.Pointer(m))
	if st.owner != nil {
		s.mu.Unlock()
		return false
	}
	st.owner = t
	t.holding++
	s.mu.Unlock()
	m.Lock()
	return true
}

// OnceDo replaces once.Do(f).
func OnceDo(o *sync.Once, f func()) {
	s := active.Load()
	if s == nil {
		o.Do(f)
		return
	}
	t := s.me()
	if t == nil {
		o.Do(f)
		return
	}
	p := unsafe.Pointer(o)
	for {
		s.mu.Lock()
		owner := s.onces[p]
		if owner == nil {
			s.onces[p] = t
			s.mu.Unlock()
			func() {
				defer func() {
					s.mu.Lock()
					delete(s.onces, p)
					s.mu.Unlock()
				}()
				o.Do(f)
			}()
			return
		}
		if owner == t {
			s.Fail = append(s.Fail, Failure{Kind: "self-deadlock", Task: t.Label, Msg: "sync.Once re-entered from its own function", Stack: string(debug.Stack())})
			s.mu.Unlock()
			panic("simrt: abort (once self-deadlock)")
		}
		s.mu.Unlock()
		s.park(t, func() bool { return s.onces[p] == nil }, -4)
	}
}

// SelectOrder returns the order in which ready cases of a select are polled.
func SelectOrder(site, n int) []int {
	o := make([]int, n)
	for i := range o {
		o[i] = i
	}
	s := active.Load()
	if s == nil || n < 2 {
		return o
	}
	g := getg()
	s.mu.Lock()
	t := s.byG[g]
	isCur := t != nil && s.cur == t
	s.mu.Unlock()
	if !isCur {
		return o
	}
	k := s.src.Select(s, site, n)
	if k < 0 || k >= n {
		k = 0
	}
	s.mu.Lock()
	s.Selects = append(s.Selects, k)
	s.mu.Unlock()
	return append(o[k:], o[:k]...)
}

// SortedKeys returns the keys of m in a deterministic order.
func SortedKeys[M ~map[K]V, K comparable, V any](m M) []K {
	keys := make([]K, 0, len(m))
	for k := range m {
		keys = append(keys, k)
	}
	if len(keys) > 1 {
		sort.Slice(keys, func(i, j int) bool { return fmt.Sprint(keys[i]) < fmt.Sprint(keys[j]) })
	}
	return keys
}

// ---- scheduler ---------------------------------------------------------------

// New creates a scheduler driven by src.
func New(src Source) *Sched {
	return &Sched{
		byG: map[uintptr]*Task{}, parked: map[*Task]bool{}, alive: map[*Task]bool{},
		kick: make(chan struct{}, 1), src: src,
		locks: map[unsafe.Pointer]*lockState{}, onces: map[unsafe.Pointer]*Task{},
		budget: -1, TraceHash: 14695981039346656037,
	}
}

func (s *Sched) hashTurn(label string, site int) {
	h := s.TraceHash
	for i := 0; i < len(label); i++ {
		h ^= uint64(label[i])
		h *= 1099511628211
	}
	h ^= uint64(uint32(site))
	h *= 1099511628211
	s.TraceHash = h
}

// Run drives tasks until horizon of virtual time or maxSteps hand-offs; it
// must be called from the root goroutine of a synctest bubble.
// It returns "horizon", "idle" (no task left), "steps", "fail", "stop" or "diverged".
func (s *Sched) Run(horizon time.Duration, maxSteps int) string {
	s.start = time.Now()
	s.wantYield = s.src.WantYield()
	active.Store(s)
	defer active.Store(nil)
	end := time.NewTimer(horizon)
	defer end.Stop()
	var ready, fresh []*Task
	oracleAlive := false
	for {
		synctest.Wait()
		Progress.Add(1)
		s.mu.Lock()
		if s.KeepTape && len(s.Tape) > 0 && s.tapeOpen {
			s.Tape[len(s.Tape)-1].Y = s.turnY
		}
		if s.counted {
			s.LastTurnY = s.turnY
			s.LastPreempted = s.turnPre
		}
		if len(s.Fail) > 0 {
			s.mu.Unlock()
			return "fail"
		}
		if s.Diverged != "" {
			s.mu.Unlock()
			return "diverged"
		}
		if s.overBudget {
			s.mu.Unlock()
			return "yields"
		}
		s.cur = nil
		var settle, oracle *Task
		ready = ready[:0]
		fresh = fresh[:0]
		for t := range s.parked {
			if t.parkSeq == 0 {
				fresh = append(fresh, t)
			}
		}
		if len(fresh) > 1 {
			sort.Slice(fresh, func(i, j int) bool { return fresh[i].Label < fresh[j].Label })
		}
		for _, t := range fresh {
			s.pseq++
			t.parkSeq = s.pseq
		}
		for t := range s.parked {
			if t.settle {
				settle = t
			}
			if t.pred == nil || t.pred() {
				ready = append(ready, t)
				if t.noPreempt {
					oracle = t
				}
			}
		}
		nalive := len(s.alive)
		if settle != nil {
			// resumed without a decision: the turn simply continues
			settle.settle = false
			delete(s.parked, settle)
			s.cur = settle
			s.mu.Unlock()
			settle.resume <- struct{}{}
			continue
		}
		s.mu.Unlock()
		if s.OnStep != nil && !s.OnStep() {
			return "stop"
		}
		if s.StopFlag.Load() {
			return "stop"
		}
		if len(ready) == 0 {
			if nalive == 0 {
				return "idle"
			}
			if s.OnQuiescent != nil && !s.quiesceBusy && !oracleAlive {
				s.quiesceBusy = true
				oracleAlive = true
				s.mu.Lock()
				t := s.newTask("~oracle")
				t.noPreempt = true
				s.mu.Unlock()
				go s.runTask(t, 0, func() {
					defer func() { oracleAlive = false }()
					s.OnQuiescent()
				})
				continue
			}
			s.quiesceBusy = false
			// nobody can have kicked since Wait returned: a token is stale
			select {
			case <-s.kick:
			default:
			}
			select {
			case <-s.kick:
			case <-end.C:
				return "horizon"
			}
			continue
		}
		select {
		case <-s.kick:
		default:
		}
		sort.Slice(ready, func(i, j int) bool { return ready[i].Label < ready[j].Label })
		t := oracle
		budget := -1
		if t == nil {
			s.quiesceBusy = false
			if s.Steps >= maxSteps {
				return "steps"
			}
			s.Steps++
			s.NextStall = 0
			idx, b := s.src.Next(s, ready)
			if s.Diverged != "" {
				return "diverged"
			}
			if idx < 0 || idx >= len(ready) {
				idx = 0
			}
			t, budget = ready[idx], b
		}
		s.mu.Lock()
		delete(s.parked, t)
		s.cur = t
		if budget < 0 || t == oracle {
			s.NextStall = 0
		}
		s.budget = budget
		s.turnY = 0
		s.turnPre = false
		s.tapeOpen = false
		s.counted = t != oracle
		if t != oracle {
			s.hashTurn(t.Label, t.site)
			if s.KeepTape {
				s.Tape = append(s.Tape, Turn{L: t.Label, S: t.site})
				s.tapeOpen = true
			}
		}
		s.mu.Unlock()
		t.resume <- struct{}{}
	}
}

// Elapsed is the virtual time since Run started (valid after Run returned too).
func (s *Sched) Elapsed() time.Duration { return time.Since(s.start) }

// AliveTasks lists the labels of tasks that have not exited.
func (s *Sched) AliveTasks() []string {
	s.mu.Lock()
	defer s.mu.Unlock()
	var l []string
	for t := range s.alive {
		st := "blocked"
		if s.parked[t] {
			if t.pred == nil {
				st = "ready"
			} else {
				st = "parked"
			}
		}
		l = append(l, fmt.Sprintf("%s[%s@%s]", t.Label, st, SiteString(t.site)))
	}
	sort.Strings(l)
	return l
}

// AliveLabels lists labels only.
func (s *Sched) AliveLabels() []string {
	s.mu.Lock()
	defer s.mu.Unlock()
	var l []string
	for t := range s.alive {
		l = append(l, t.Label)
	}
	sort.Strings(l)
	return l
}

// LockHolders lists tasks that hold a sim-lock right now.
func (s *Sched) LockHolders() []string {
	s.mu.Lock()
	defer s.mu.Unlock()
	var l []string
	for t := range s.alive {
		if t.holding > 0 {
			l = append(l, t.Label)
		}
	}
	sort.Strings(l)
	return l
}

// SiteString renders a site id.
func SiteString(site int) string {
	if site > 0 && site < len(SiteTable) {
		f := strings.SplitN(SiteTable[site], "\t", 3)
		if len(f) >= 2 {
			return f[0] + "(" + f[1] + ")"
		}
		return SiteTable[site]
	}
	switch site {
	case 0:
		return "start"
	case -1:
		return "io-wait"
	case -2:
		return "sleep"
	case -3:
		return "lock-wait"
	case -4:
		return "once-wait"
	case -5:
		return "after-call"
	case -6:
		return "settle"
	}
	return fmt.Sprint(site)
}

// HashStrings is a helper for trace hashing in the harness.
func HashStrings(ss ...string) uint64 {
	h := fnv.New64a()
	for _, x := range ss {
		h.Write([]byte(x))
		h.Write([]byte{0})
	}
	return h.Sum64()
}
