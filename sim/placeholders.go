package sim

// scenario parts of the other families (defined in their own files as they are built)
type AdmScen struct{}

// touch
