package ref

import (
	"bytes"
	"compress/flate"
	"encoding/binary"
	"errors"
	"fmt"
	"io"
)

// WebSocket opcodes (RFC 6455 section 5.2).
const (
	WSCont   = 0
	WSText   = 1
	WSBinary = 2
	WSClose  = 8
	WSPing   = 9
	WSPong   = 10
)

// WSFrame is one RFC 6455 frame. Payload is always the UNMASKED payload.
type WSFrame struct {
	Fin, RSV1 bool
	Op        byte
	Masked    bool
	Payload   []byte
}

// Errors returned by ReadWSFrame for frames that are well delimited but
// violate RFC 6455.
var (
	ErrWSReservedBits     = errors.New("ref: ws: RSV2/RSV3 set")
	ErrWSNonMinimalLength = errors.New("ref: ws: non-minimal payload length encoding")
	ErrWSLengthTopBit     = errors.New("ref: ws: 64-bit payload length has the top bit set")
)

// maxInflate bounds decompressed sizes (messages and HTTP bodies).
const maxInflate = 64 << 20

// AppendWSFrame appends the wire form of f to dst using the minimal length
// encoding. If f.Masked the payload is masked with maskKey.
func AppendWSFrame(dst []byte, f WSFrame, maskKey [4]byte) []byte {
	b0 := f.Op & 0x0f
	if f.Fin {
		b0 |= 0x80
	}
	if f.RSV1 {
		b0 |= 0x40
	}
	var b1 byte
	if f.Masked {
		b1 = 0x80
	}
	n := len(f.Payload)
	switch {
	case n < 126:
		dst = append(dst, b0, b1|byte(n))
	case n < 65536:
		dst = append(dst, b0, b1|126, byte(n>>8), byte(n))
	default:
		dst = append(dst, b0, b1|127)
		dst = binary.BigEndian.AppendUint64(dst, uint64(n))
	}
	if !f.Masked {
		return append(dst, f.Payload...)
	}
	dst = append(dst, maskKey[:]...)
	for i, c := range f.Payload {
		dst = append(dst, c^maskKey[i&3])
	}
	return dst
}

func readFullMid(r io.Reader, b []byte) error {
	_, err := io.ReadFull(r, b)
	if err == io.EOF {
		return io.ErrUnexpectedEOF
	}
	return err
}

// ReadWSFrame reads exactly one frame from r and unmasks it if masked. It
// returns io.EOF only if no byte at all was available, and
// io.ErrUnexpectedEOF if the stream ends inside a frame. RSV2/RSV3, a
// non-minimal length encoding and a 64-bit length with the top bit set are
// reported as errors (after the header has been consumed).
func ReadWSFrame(r io.Reader) (WSFrame, error) {
	var h [2]byte
	if _, err := io.ReadFull(r, h[:]); err != nil {
		return WSFrame{}, err // io.EOF iff zero bytes, else ErrUnexpectedEOF
	}
	f := WSFrame{
		Fin:    h[0]&0x80 != 0,
		RSV1:   h[0]&0x40 != 0,
		Op:     h[0] & 0x0f,
		Masked: h[1]&0x80 != 0,
	}
	var n uint64
	switch l := h[1] & 0x7f; l {
	case 126:
		var e [2]byte
		if err := readFullMid(r, e[:]); err != nil {
			return f, err
		}
		n = uint64(binary.BigEndian.Uint16(e[:]))
		if n < 126 {
			return f, ErrWSNonMinimalLength
		}
	case 127:
		var e [8]byte
		if err := readFullMid(r, e[:]); err != nil {
			return f, err
		}
		n = binary.BigEndian.Uint64(e[:])
		if n>>63 != 0 {
			return f, ErrWSLengthTopBit
		}
		if n < 65536 {
			return f, ErrWSNonMinimalLength
		}
	default:
		n = uint64(l)
	}
	if h[0]&0x30 != 0 {
		return f, ErrWSReservedBits
	}
	var key [4]byte
	if f.Masked {
		if err := readFullMid(r, key[:]); err != nil {
			return f, err
		}
	}
	if n <= 1<<20 {
		f.Payload = make([]byte, n)
		if err := readFullMid(r, f.Payload); err != nil {
			f.Payload = nil
			return f, err
		}
	} else {
		// do not trust a huge declared length with an up-front allocation
		var buf bytes.Buffer
		if _, err := io.CopyN(&buf, r, int64(n)); err != nil {
			if err == io.EOF {
				err = io.ErrUnexpectedEOF
			}
			return f, err
		}
		f.Payload = buf.Bytes()
	}
	if f.Masked {
		for i := range f.Payload {
			f.Payload[i] ^= key[i&3]
		}
	}
	return f, nil
}

// WSMessage is a reassembled message (or a single control frame). For a
// compressed message Data is the inflated data.
type WSMessage struct {
	Op         byte
	Data       []byte
	Compressed bool
	Frames     int
}

// WSAssembler reassembles messages from frames, handling fragmentation and
// permessage-deflate without context takeover. The zero value is ready.
type WSAssembler struct {
	open       bool
	op         byte
	compressed bool
	frames     int
	buf        []byte
}

func isWSControl(op byte) bool { return op&0x08 != 0 }

// Push feeds one frame. It returns a message when one is complete; control
// frames are returned immediately as their own message (and may be
// interleaved with a fragmented data message). Protocol violations are
// reported as errors.
func (a *WSAssembler) Push(f WSFrame) (*WSMessage, error) {
	switch f.Op {
	case WSClose, WSPing, WSPong:
		if !f.Fin {
			return nil, errors.New("ref: ws: fragmented control frame")
		}
		if f.RSV1 {
			return nil, errors.New("ref: ws: RSV1 set on control frame")
		}
		if len(f.Payload) > 125 {
			return nil, errors.New("ref: ws: control frame payload longer than 125 bytes")
		}
		if f.Op == WSClose && len(f.Payload) == 1 {
			return nil, errors.New("ref: ws: close frame with 1-byte payload")
		}
		return &WSMessage{Op: f.Op, Data: cloneBytes(f.Payload), Frames: 1}, nil
	case WSText, WSBinary:
		if a.open {
			return nil, errors.New("ref: ws: new data frame while a fragmented message is open")
		}
		a.open = true
		a.op = f.Op
		a.compressed = f.RSV1
		a.frames = 0
		a.buf = a.buf[:0]
	case WSCont:
		if !a.open {
			return nil, errors.New("ref: ws: continuation frame without a message start")
		}
		if f.RSV1 {
			return nil, errors.New("ref: ws: RSV1 set on continuation frame")
		}
	default:
		return nil, fmt.Errorf("ref: ws: reserved opcode %d", f.Op)
	}
	a.frames++
	a.buf = append(a.buf, f.Payload...)
	if !f.Fin {
		return nil, nil
	}
	a.open = false
	msg := &WSMessage{Op: a.op, Compressed: a.compressed, Frames: a.frames}
	if !a.compressed {
		msg.Data = cloneBytes(a.buf)
		return msg, nil
	}
	data, err := inflateMessage(a.buf)
	if err != nil {
		return nil, err
	}
	msg.Data = data
	return msg, nil
}

// inflateMessage inflates one permessage-deflate message payload (RFC 7692
// section 7.2.2): append 00 00 ff ff, then inflate. A final empty stored
// block is added so the inflater sees a clean end of stream.
func inflateMessage(p []byte) ([]byte, error) {
	in := make([]byte, 0, len(p)+9)
	in = append(in, p...)
	in = append(in, 0x00, 0x00, 0xff, 0xff, 0x01, 0x00, 0x00, 0xff, 0xff)
	fr := flate.NewReader(bytes.NewReader(in))
	defer fr.Close()
	out, err := io.ReadAll(io.LimitReader(fr, maxInflate+1))
	if err != nil {
		return nil, fmt.Errorf("ref: ws: permessage-deflate: %w", err)
	}
	if len(out) > maxInflate {
		return nil, errors.New("ref: ws: permessage-deflate: inflated message too large")
	}
	return out, nil
}

// WSClosePayload builds a close frame payload: 2-byte big-endian status code
// followed by the UTF-8 reason.
func WSClosePayload(code int, reason string) []byte {
	out := make([]byte, 2, 2+len(reason))
	binary.BigEndian.PutUint16(out, uint16(code))
	return append(out, reason...)
}

// ParseWSClose parses a close frame payload. An empty payload yields
// (1005, "") — "no status received"; a 1-byte payload is malformed and
// yields (-1, "").
func ParseWSClose(p []byte) (code int, reason string) {
	switch {
	case len(p) == 0:
		return 1005, ""
	case len(p) == 1:
		return -1, ""
	}
	return int(binary.BigEndian.Uint16(p)), string(p[2:])
}
