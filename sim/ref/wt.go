package ref

import (
	"encoding/binary"
	"errors"
	"fmt"
)

// WTMsg is one Engine.IO message on a WebTransport stream.
type WTMsg struct {
	Binary bool
	Data   []byte
}

// ErrWTLengthTopBit is returned by DecodeWTStream for a 64-bit length whose
// top bit is set.
var ErrWTLengthTopBit = errors.New("ref: wt: 64-bit length has the top bit set")

// AppendWTFrame appends m in the minimal header form.
func AppendWTFrame(dst []byte, m WTMsg) []byte {
	switch n := len(m.Data); {
	case n < 126:
		return AppendWTFrameForm(dst, m, 0)
	case n < 65536:
		return AppendWTFrameForm(dst, m, 1)
	default:
		return AppendWTFrameForm(dst, m, 2)
	}
}

// AppendWTFrameForm appends m using a chosen header form: 0 = 7-bit length
// (panics if len >= 126), 1 = 126 + 16-bit length (panics if len >= 65536),
// 2 = 127 + 64-bit length. Forms 1 and 2 can produce non-minimal encodings.
func AppendWTFrameForm(dst []byte, m WTMsg, form int) []byte {
	var hi byte
	if m.Binary {
		hi = 0x80
	}
	n := len(m.Data)
	switch form {
	case 0:
		if n >= 126 {
			panic(fmt.Sprintf("ref: wt: length %d does not fit the 7-bit form", n))
		}
		dst = append(dst, hi|byte(n))
	case 1:
		if n >= 65536 {
			panic(fmt.Sprintf("ref: wt: length %d does not fit the 16-bit form", n))
		}
		dst = append(dst, hi|126, byte(n>>8), byte(n))
	case 2:
		dst = append(dst, hi|127)
		dst = binary.BigEndian.AppendUint64(dst, uint64(n))
	default:
		panic(fmt.Sprintf("ref: wt: unknown header form %d", form))
	}
	return append(dst, m.Data...)
}

// DecodeWTStream decodes as many complete frames as b contains. rest is the
// undecoded tail (an incomplete frame, or everything from the offending frame
// on error). err is non-nil only for a 64-bit length with the top bit set.
func DecodeWTStream(b []byte) (msgs []WTMsg, rest []byte, err error) {
	for len(b) > 0 {
		h := b[0]
		var n uint64
		hdr := 1
		switch l := h & 0x7f; l {
		case 126:
			if len(b) < 3 {
				return msgs, b, nil
			}
			n = uint64(binary.BigEndian.Uint16(b[1:3]))
			hdr = 3
		case 127:
			if len(b) < 9 {
				return msgs, b, nil
			}
			n = binary.BigEndian.Uint64(b[1:9])
			if n>>63 != 0 {
				return msgs, b, ErrWTLengthTopBit
			}
			hdr = 9
		default:
			n = uint64(l)
		}
		if n > uint64(len(b)-hdr) {
			return msgs, b, nil
		}
		end := hdr + int(n)
		msgs = append(msgs, WTMsg{Binary: h&0x80 != 0, Data: cloneBytes(b[hdr:end])})
		b = b[end:]
	}
	return msgs, nil, nil
}
