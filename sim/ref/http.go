package ref

import (
	"bytes"
	"compress/flate"
	"compress/gzip"
	"compress/zlib"
	"errors"
	"fmt"
	"io"
	"strconv"
	"strings"

	"github.com/andybalholm/brotli"
	"github.com/klauspost/compress/zstd"
)

func readAllLimited(r io.Reader) ([]byte, error) {
	out, err := io.ReadAll(io.LimitReader(r, maxInflate+1))
	if err != nil {
		return nil, err
	}
	if len(out) > maxInflate {
		return nil, errors.New("decoded body too large")
	}
	return out, nil
}

// decodeBrotli decodes body and insists that it is exactly one complete
// brotli stream. The brotli reader reports a clean io.EOF when its source ends
// on a read boundary even if the stream is unfinished, so completeness is
// established with a second pass over body plus one sentinel byte: only a
// finished stream rejects the sentinel as "excessive input".
func decodeBrotli(body []byte) ([]byte, error) {
	out, err := readAllLimited(brotli.NewReader(bytes.NewReader(body)))
	if err != nil {
		return nil, err // includes trailing garbage in body itself
	}
	probe := append(append(make([]byte, 0, len(body)+1), body...), 0x00)
	_, err = readAllLimited(brotli.NewReader(bytes.NewReader(probe)))
	if err == nil || !strings.Contains(err.Error(), "excessive input") {
		return nil, errors.New("truncated brotli stream")
	}
	return out, nil
}

func decodeOne(coding string, body []byte) ([]byte, error) {
	switch coding {
	case "", "identity":
		return body, nil
	case "gzip", "x-gzip":
		zr, err := gzip.NewReader(bytes.NewReader(body))
		if err != nil {
			return nil, err
		}
		defer zr.Close()
		return readAllLimited(zr) // multistream: trailing garbage is an error
	case "deflate":
		br := bytes.NewReader(body) // io.ByteReader: no read-ahead past the stream end
		zr, err := zlib.NewReader(br)
		if err != nil {
			return nil, err
		}
		defer zr.Close()
		out, err := readAllLimited(zr)
		if err != nil {
			return nil, err
		}
		if br.Len() != 0 {
			return nil, fmt.Errorf("%d trailing bytes after zlib stream", br.Len())
		}
		return out, nil
	case "br":
		if len(body) == 0 {
			return nil, errors.New("empty brotli stream")
		}
		return decodeBrotli(body)
	case "zstd":
		if len(body) == 0 {
			return nil, errors.New("empty zstd stream")
		}
		dec, err := zstd.NewReader(nil,
			zstd.WithDecoderConcurrency(1),
			zstd.WithDecoderMaxMemory(maxInflate))
		if err != nil {
			return nil, err
		}
		defer dec.Close()
		return dec.DecodeAll(body, nil) // synchronous, no goroutines
	}
	return nil, fmt.Errorf("unknown content coding %q", coding)
}

// DecodeContent undoes an HTTP content coding (RFC 9110 section 8.4.1):
// "gzip" (RFC 1952), "deflate" (zlib format, RFC 1950 — NOT raw deflate),
// "br", "zstd", "identity"/"" (as is). A comma-separated list (the
// Content-Encoding field value) is undone in reverse order. Unknown codings
// and malformed bodies are errors.
func DecodeContent(coding string, body []byte) ([]byte, error) {
	parts := strings.Split(coding, ",")
	for i := len(parts) - 1; i >= 0; i-- {
		c := strings.ToLower(strings.TrimSpace(parts[i]))
		out, err := decodeOne(c, body)
		if err != nil {
			return nil, fmt.Errorf("ref: content coding %q: %w", c, err)
		}
		body = out
	}
	return body, nil
}

// IsRawDeflate reports whether body inflates completely (whole input consumed,
// final block seen) as a raw RFC 1951 stream, returning the inflated data.
func IsRawDeflate(body []byte) ([]byte, bool) {
	if len(body) == 0 {
		return nil, false
	}
	br := bytes.NewReader(body)
	fr := flate.NewReader(br)
	defer fr.Close()
	out, err := readAllLimited(fr)
	if err != nil || br.Len() != 0 {
		return nil, false
	}
	return out, true
}

// AcceptsCoding reports whether an Accept-Encoding field value lists coding as
// a token with a non-zero q value (accepted), and whether the token is listed
// at all, even with q=0 (listed). "*" does not count. An unparsable q value is
// treated as 1.
func AcceptsCoding(acceptEncoding, coding string) (accepted bool, listed bool) {
	coding = strings.TrimSpace(coding)
	if coding == "" {
		return false, false
	}
	for _, item := range strings.Split(acceptEncoding, ",") {
		params := strings.Split(item, ";")
		tok := strings.TrimSpace(params[0])
		if !strings.EqualFold(tok, coding) {
			continue
		}
		listed = true
		q := 1.0
		for _, p := range params[1:] {
			k, v, ok := strings.Cut(p, "=")
			if !ok || !strings.EqualFold(strings.TrimSpace(k), "q") {
				continue
			}
			if f, err := strconv.ParseFloat(strings.TrimSpace(v), 64); err == nil {
				q = f
			}
		}
		if q > 0 {
			accepted = true
		}
	}
	return accepted, listed
}
