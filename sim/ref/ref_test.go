package ref

import (
	"bytes"
	"compress/flate"
	"compress/gzip"
	"compress/zlib"
	"errors"
	"io"
	"math/rand"
	"strings"
	"testing"

	"github.com/andybalholm/brotli"
	"github.com/klauspost/compress/zstd"
)

func samePackets(a, b []Packet) bool {
	if len(a) != len(b) {
		return false
	}
	for i := range a {
		if a[i].Type != b[i].Type || a[i].Binary != b[i].Binary || !bytes.Equal(a[i].Data, b[i].Data) {
			return false
		}
	}
	return true
}

func txt(t int, s string) Packet { return Packet{Type: t, Data: []byte(s)} }
func bin(b ...byte) Packet       { return Packet{Type: Message, Data: b, Binary: true} }

func TestUTF16Len(t *testing.T) {
	for _, c := range []struct {
		in   string
		want int
	}{
		{"", 0}, {"abc", 3}, {"€", 1}, {"4€", 2}, {"😀", 2}, {"a😀b", 4},
		{"\xff", 1}, {"\xe2\x82", 2}, {"é\u2028", 2},
	} {
		if got := UTF16Len([]byte(c.in)); got != c.want {
			t.Errorf("UTF16Len(%q)=%d want %d", c.in, got, c.want)
		}
	}
}

func TestPayloadV4(t *testing.T) {
	cases := []struct {
		ps   []Packet
		wire string
	}{
		{[]Packet{txt(4, "hello"), txt(2, ""), txt(4, "€")}, "4hello\x1e2\x1e4€"},
		{[]Packet{txt(0, `{"sid":"x"}`)}, `0{"sid":"x"}`},
		{[]Packet{bin(1, 2, 3)}, "bAQID"},
		{[]Packet{txt(4, "€"), bin(1, 2, 3, 4)}, "4€\x1ebAQIDBA=="},
		{[]Packet{txt(6, ""), txt(1, ""), txt(3, "probe"), txt(5, "")}, "6\x1e1\x1e3probe\x1e5"},
		{[]Packet{bin()}, "b"},
	}
	for _, c := range cases {
		if got := EncodePayloadV4(c.ps); string(got) != c.wire {
			t.Errorf("EncodePayloadV4 = %q want %q", got, c.wire)
		}
		got, err := DecodePayloadV4([]byte(c.wire))
		if err != nil || !samePackets(got, c.ps) {
			t.Errorf("DecodePayloadV4(%q) = %v, %v", c.wire, got, err)
		}
	}
	for _, bad := range []string{"", "7x", "x", "4a\x1e", "\x1e4a", "4a\x1e\x1e4b", "bAQI", "b!!!!", "bAQID\x1e9"} {
		if ps, err := DecodePayloadV4([]byte(bad)); err == nil {
			t.Errorf("DecodePayloadV4(%q) = %v, want error", bad, ps)
		}
	}
}

func TestPayloadV3String(t *testing.T) {
	cases := []struct {
		ps   []Packet
		wire string
	}{
		{[]Packet{txt(4, "hello"), txt(4, "€")}, "6:4hello2:4€"},
		{[]Packet{txt(4, "😀")}, "3:4😀"},
		{[]Packet{txt(2, "")}, "1:2"},
		{[]Packet{bin(1, 2, 3)}, "6:b4AQID"},
		{[]Packet{txt(4, "0123456789"), txt(6, "")}, "11:401234567891:6"},
		{[]Packet{txt(4, "a:b"), txt(4, "1:4x")}, "4:4a:b5:41:4x"},
	}
	for _, c := range cases {
		got, isBin := EncodePayloadV3(c.ps, false)
		if string(got) != c.wire || isBin {
			t.Errorf("EncodePayloadV3 = %q,%v want %q", got, isBin, c.wire)
		}
		dec, err := DecodePayloadV3([]byte(c.wire), false)
		if err != nil || !samePackets(dec, c.ps) {
			t.Errorf("DecodePayloadV3(%q) = %v, %v", c.wire, dec, err)
		}
	}
	// supportsBinary but no binary packet: still the string form
	if got, isBin := EncodePayloadV3([]Packet{txt(4, "hi")}, true); string(got) != "3:4hi" || isBin {
		t.Errorf("got %q %v", got, isBin)
	}
	if got, isBin := EncodePayloadV3(nil, true); string(got) != "0:" || isBin {
		t.Errorf("empty: got %q %v", got, isBin)
	}
	if ps, err := DecodePayloadV3([]byte("0:"), false); err != nil || len(ps) != 0 {
		t.Errorf("0: -> %v %v", ps, err)
	}
	for _, bad := range []string{"", ":4a", "2:4", "x:4", "2;4a", "24a", "3:4a", "1:9", "2:4😀", "1:42", "2:bx", "3:b4*", "-1:4", "9999999999999999:4"} {
		if ps, err := DecodePayloadV3([]byte(bad), false); err == nil {
			t.Errorf("DecodePayloadV3(%q) = %v, want error", bad, ps)
		}
	}
}

func TestPayloadV3Binary(t *testing.T) {
	ps := []Packet{txt(4, "hello"), bin(1, 2, 3), txt(4, "€"), txt(4, "0123456789a")}
	want := []byte{
		0x00, 6, 0xff, '4', 'h', 'e', 'l', 'l', 'o',
		0x01, 4, 0xff, 0x04, 1, 2, 3,
		0x00, 4, 0xff, '4', 0xe2, 0x82, 0xac,
		0x00, 1, 2, 0xff, '4', '0', '1', '2', '3', '4', '5', '6', '7', '8', '9', 'a',
	}
	got, isBin := EncodePayloadV3(ps, true)
	if !isBin || !bytes.Equal(got, want) {
		t.Fatalf("EncodePayloadV3 binary = % x (%v)\nwant % x", got, isBin, want)
	}
	dec, err := DecodePayloadV3(want, true)
	if err != nil || !samePackets(dec, ps) {
		t.Fatalf("DecodePayloadV3 = %v, %v", dec, err)
	}
	// a base64 packet inside a string entry of the binary form
	dec, err = DecodePayloadV3([]byte{0, 6, 0xff, 'b', '4', 'A', 'Q', 'I', 'D'}, true)
	if err != nil || !samePackets(dec, []Packet{bin(1, 2, 3)}) {
		t.Errorf("b64 in binary form: %v %v", dec, err)
	}
	for _, bad := range [][]byte{
		{}, {2, 1, 0xff, '4'}, {0, 0xff, '4'}, {0, 1}, {0, 2, 0xff, '4'}, {0, 10, 0xff, '4'},
		{0, '1', 0xff, '4'}, {1, 1, 0xff, 7}, {0, 1, 0xff, 4}, {1, 0, 0xff}, {0, 1, 0xff, '4', 0},
		{0, 1, 1, 1, 1, 1, 1, 1, 1, 1, 1, 1, 1, 1, 1, 1, 1, 1, 1, 1, 1, 0xff, '4'},
	} {
		if ps, err := DecodePayloadV3(bad, true); err == nil {
			t.Errorf("DecodePayloadV3(% x, binary) = %v, want error", bad, ps)
		}
	}
}

func TestPacketFrames(t *testing.T) {
	cases := []struct {
		p       Packet
		version int
		supBin  bool
		wire    string
		binFr   bool
	}{
		{txt(4, "hello"), 4, true, "4hello", false},
		{txt(4, "hello"), 3, false, "4hello", false},
		{txt(2, "probe"), 4, true, "2probe", false},
		{txt(6, ""), 3, true, "6", false},
		{bin(1, 2, 3), 4, true, "\x01\x02\x03", true},
		{bin(1, 2, 3), 4, false, "bAQID", false},
		{bin(1, 2, 3), 3, true, "\x04\x01\x02\x03", true},
		{bin(1, 2, 3), 3, false, "b4AQID", false},
		{bin(), 4, true, "", true},
		{bin(), 3, true, "\x04", true},
	}
	for _, c := range cases {
		got, bf := EncodePacket(c.p, c.version, c.supBin)
		if string(got) != c.wire || bf != c.binFr {
			t.Errorf("EncodePacket(%v,v%d,%v) = %q,%v want %q,%v", c.p, c.version, c.supBin, got, bf, c.wire, c.binFr)
		}
		dec, err := DecodePacket([]byte(c.wire), c.binFr, c.version)
		if err != nil || !samePackets([]Packet{dec}, []Packet{c.p}) {
			t.Errorf("DecodePacket(%q,%v,v%d) = %v,%v", c.wire, c.binFr, c.version, dec, err)
		}
	}
	bad := []struct {
		wire  string
		binFr bool
		v     int
	}{
		{"", false, 4}, {"", false, 3}, {"", true, 3}, {"7", false, 4}, {"x", false, 3},
		{"\x07abc", true, 3}, {"bAQI", false, 4}, {"bAQID", false, 3}, {"b", false, 3}, {"b9AQID", false, 3},
	}
	for _, c := range bad {
		if p, err := DecodePacket([]byte(c.wire), c.binFr, c.v); err == nil {
			t.Errorf("DecodePacket(%q,%v,v%d) = %v want error", c.wire, c.binFr, c.v, p)
		}
	}
}

func TestJSONP(t *testing.T) {
	idx, lit, payload, err := ParseJSONP([]byte(`___eio[0]("4hello");`))
	if err != nil || idx != "0" || lit != `"4hello"` || payload != "4hello" {
		t.Errorf("got %q %q %q %v", idx, lit, payload, err)
	}
	idx, lit, payload, err = ParseJSONP([]byte(`___eio[12]("6:4a\"\\b2:4\u2028\n");`))
	if err != nil || idx != "12" || lit != `"6:4a\"\\b2:4\u2028\n"` || payload != "6:4a\"\\b2:4\u2028\n" {
		t.Errorf("got %q %q %q %v", idx, lit, payload, err)
	}
	// idx is not validated
	idx, _, _, err = ParseJSONP([]byte(`___eio[a b]("x");`))
	if err != nil || idx != "a b" {
		t.Errorf("got %q %v", idx, err)
	}
	// surrogate pair escapes decode to one astral character
	_, _, payload, err = ParseJSONP([]byte(`___eio[1]("\ud83d\ude00");`))
	if err != nil || payload != "😀" {
		t.Errorf("got %q %v", payload, err)
	}
	for _, bad := range []string{
		``, `___eio[0]`, ` ___eio[0]("x");`, `___eio[0]("x"); `, `___eio[0]("x");` + "\n", `___eio[0]("x")`,
		`___eio[0("x");`, `___eio[0] ("x");`, `___eio[0]('x');`, `___eio[0](x);`, `___eio[0](");`,
		`___eio[0]("a"b");`, `___eio[0]("a\");`, `___eio[0]("a"+"b");`, "___eio[0](\"a\nb\");", `__eio[0]("x");`,
		`/**/___eio[0]("x");`, `___eio[0]("\x41");`,
	} {
		if i, l, p, err := ParseJSONP([]byte(bad)); err == nil {
			t.Errorf("ParseJSONP(%q) = %q %q %q, want error", bad, i, l, p)
		}
	}
}

func TestScriptSafe(t *testing.T) {
	safe := []string{`""`, `"4hello"`, `"a\"b"`, `"a\\"`, `"\u2028\u2029\n"`, `"<\/script>"`, `"<script>"`, `"<!-"`, `"a\\\"b"`}
	unsafe := []string{
		``, `"`, `abc`, `"abc`, `abc"`, `"a"b"`, `"a\"`, `"a\\\"`, "\"a\nb\"", "\"a\rb\"", "\"a\u2028b\"", "\"a\u2029b\"",
		`"</script>"`, `"</SCRIPT>"`, `"</ScRiPt x"`, `"<!--"`, `"a<!-- b"`, `'abc'`,
	}
	for _, s := range safe {
		if !ScriptSafe(s) {
			t.Errorf("ScriptSafe(%q) = false", s)
		}
	}
	for _, s := range unsafe {
		if ScriptSafe(s) {
			t.Errorf("ScriptSafe(%q) = true", s)
		}
	}
}

func TestEncodeJSONPForm(t *testing.T) {
	for _, c := range []struct{ in, want string }{
		{"4hello", "d=4hello"},
		{"4a\nb", `d=4a%5Cnb`},
		{`4a\nb`, `d=4a%5C%5Cnb`},
		{"4a\\n\nb", `d=4a%5C%5Cn%5Cnb`},
		{"6:4a b&2:4€", "d=6%3A4a+b%262%3A4%E2%82%AC"},
		{"4x\x1e2", "d=4x%1E2"},
	} {
		if got := string(EncodeJSONPForm(c.in)); got != c.want {
			t.Errorf("EncodeJSONPForm(%q) = %q want %q", c.in, got, c.want)
		}
	}
}

// ---------------------------------------------------------------------------

func TestWSFrameVectors(t *testing.T) {
	key := [4]byte{0x37, 0xfa, 0x21, 0x3d}
	big256 := bytes.Repeat([]byte{0xab}, 256)
	big64k := bytes.Repeat([]byte{0xcd}, 65536)
	cases := []struct {
		f    WSFrame
		wire []byte
	}{
		// RFC 6455 section 5.7
		{WSFrame{Fin: true, Op: 1, Payload: []byte("Hello")}, []byte{0x81, 0x05, 0x48, 0x65, 0x6c, 0x6c, 0x6f}},
		{WSFrame{Fin: true, Op: 1, Masked: true, Payload: []byte("Hello")}, []byte{0x81, 0x85, 0x37, 0xfa, 0x21, 0x3d, 0x7f, 0x9f, 0x4d, 0x51, 0x58}},
		{WSFrame{Op: 1, Payload: []byte("Hel")}, []byte{0x01, 0x03, 0x48, 0x65, 0x6c}},
		{WSFrame{Fin: true, Op: 0, Payload: []byte("lo")}, []byte{0x80, 0x02, 0x6c, 0x6f}},
		{WSFrame{Fin: true, Op: 9, Payload: []byte("Hello")}, []byte{0x89, 0x05, 0x48, 0x65, 0x6c, 0x6c, 0x6f}},
		{WSFrame{Fin: true, Op: 10, Masked: true, Payload: []byte("Hello")}, []byte{0x8a, 0x85, 0x37, 0xfa, 0x21, 0x3d, 0x7f, 0x9f, 0x4d, 0x51, 0x58}},
		{WSFrame{Fin: true, Op: 2, Payload: big256}, append([]byte{0x82, 0x7e, 0x01, 0x00}, big256...)},
		{WSFrame{Fin: true, Op: 2, Payload: big64k}, append([]byte{0x82, 0x7f, 0, 0, 0, 0, 0, 1, 0, 0}, big64k...)},
		// RFC 7692 section 7.2.3.1
		{WSFrame{Fin: true, RSV1: true, Op: 1, Payload: []byte{0xf2, 0x48, 0xcd, 0xc9, 0xc9, 0x07, 0x00}}, []byte{0xc1, 0x07, 0xf2, 0x48, 0xcd, 0xc9, 0xc9, 0x07, 0x00}},
		{WSFrame{Fin: true, Op: 8, Payload: []byte{0x03, 0xe8}}, []byte{0x88, 0x02, 0x03, 0xe8}},
		{WSFrame{Fin: true, Op: 8, Payload: []byte{}}, []byte{0x88, 0x00}},
	}
	for i, c := range cases {
		got := AppendWSFrame(nil, c.f, key)
		if !bytes.Equal(got, c.wire) {
			t.Errorf("case %d: AppendWSFrame = % x want % x", i, got[:min(len(got), 16)], c.wire[:min(len(c.wire), 16)])
		}
		r := bytes.NewReader(append(append([]byte{}, c.wire...), 0x81)) // one extra byte must stay unread
		f, err := ReadWSFrame(r)
		if err != nil || f.Fin != c.f.Fin || f.RSV1 != c.f.RSV1 || f.Op != c.f.Op || f.Masked != c.f.Masked || !bytes.Equal(f.Payload, c.f.Payload) {
			t.Errorf("case %d: ReadWSFrame = %+v, %v", i, f, err)
		}
		if r.Len() != 1 {
			t.Errorf("case %d: ReadWSFrame left %d bytes, want 1", i, r.Len())
		}
	}
	// 125 / 126 / 65535 boundaries
	for _, n := range []int{125, 126, 65535} {
		w := AppendWSFrame(nil, WSFrame{Fin: true, Op: 2, Payload: make([]byte, n)}, key)
		wantHdr := map[int]int{125: 2, 126: 4, 65535: 4}[n]
		if len(w) != wantHdr+n {
			t.Errorf("len %d: wire length %d", n, len(w))
		}
	}
}

func TestReadWSFrameErrors(t *testing.T) {
	if _, err := ReadWSFrame(bytes.NewReader(nil)); err != io.EOF {
		t.Errorf("empty: %v", err)
	}
	full := AppendWSFrame(nil, WSFrame{Fin: true, Op: 1, Masked: true, Payload: bytes.Repeat([]byte("x"), 300)}, [4]byte{1, 2, 3, 4})
	for _, cut := range []int{1, 2, 3, 4, 6, 8, 9, len(full) - 1} {
		if _, err := ReadWSFrame(bytes.NewReader(full[:cut])); err != io.ErrUnexpectedEOF {
			t.Errorf("cut %d: %v", cut, err)
		}
	}
	if _, err := ReadWSFrame(iotest1(full)); err != nil {
		t.Errorf("one-byte reader: %v", err)
	}
	for _, c := range []struct {
		wire []byte
		want error
	}{
		{[]byte{0xa1, 0x00}, ErrWSReservedBits},
		{[]byte{0x91, 0x00}, ErrWSReservedBits},
		{[]byte{0x81, 0x7e, 0x00, 0x7d}, ErrWSNonMinimalLength},
		{[]byte{0x81, 0x7f, 0, 0, 0, 0, 0, 0, 0xff, 0xff}, ErrWSNonMinimalLength},
		{[]byte{0x81, 0x7f, 0x80, 0, 0, 0, 0, 0, 0, 0}, ErrWSLengthTopBit},
	} {
		if _, err := ReadWSFrame(bytes.NewReader(c.wire)); !errors.Is(err, c.want) {
			t.Errorf("% x: %v want %v", c.wire, err, c.want)
		}
	}
	// huge declared length, tiny body: no giant allocation, clean error
	if _, err := ReadWSFrame(bytes.NewReader([]byte{0x82, 0x7f, 0x7f, 0xff, 0xff, 0xff, 0xff, 0xff, 0xff, 0xff, 1, 2, 3})); err != io.ErrUnexpectedEOF {
		t.Errorf("huge: %v", err)
	}
}

type oneByteReader struct{ r io.Reader }

func (o oneByteReader) Read(p []byte) (int, error) {
	if len(p) > 1 {
		p = p[:1]
	}
	return o.r.Read(p)
}
func iotest1(b []byte) io.Reader { return oneByteReader{bytes.NewReader(b)} }

func TestWSAssembler(t *testing.T) {
	var a WSAssembler
	push := func(f WSFrame) *WSMessage {
		t.Helper()
		m, err := a.Push(f)
		if err != nil {
			t.Fatalf("Push(%+v): %v", f, err)
		}
		return m
	}
	// fragmented text with an interleaved ping
	if m := push(WSFrame{Op: 1, Payload: []byte("Hel")}); m != nil {
		t.Fatalf("early message %+v", m)
	}
	if m := push(WSFrame{Fin: true, Op: 9, Payload: []byte("p")}); m == nil || m.Op != 9 || string(m.Data) != "p" || m.Frames != 1 {
		t.Fatalf("ping: %+v", m)
	}
	if m := push(WSFrame{Op: 0, Payload: nil}); m != nil {
		t.Fatalf("early message %+v", m)
	}
	m := push(WSFrame{Fin: true, Op: 0, Payload: []byte("lo")})
	if m == nil || m.Op != 1 || string(m.Data) != "Hello" || m.Frames != 3 || m.Compressed {
		t.Fatalf("msg: %+v", m)
	}
	// RFC 7692 section 7.2.3 examples, all "Hello"
	for name, frames := range map[string][]WSFrame{
		"single":     {{Fin: true, RSV1: true, Op: 1, Payload: []byte{0xf2, 0x48, 0xcd, 0xc9, 0xc9, 0x07, 0x00}}},
		"fragmented": {{RSV1: true, Op: 1, Payload: []byte{0xf2, 0x48, 0xcd}}, {Fin: true, Op: 0, Payload: []byte{0xc9, 0xc9, 0x07, 0x00}}},
		"stored":     {{Fin: true, RSV1: true, Op: 1, Payload: []byte{0x00, 0x05, 0x00, 0xfa, 0xff, 0x48, 0x65, 0x6c, 0x6c, 0x6f, 0x00}}},
		"bfinal":     {{Fin: true, RSV1: true, Op: 1, Payload: []byte{0xf3, 0x48, 0xcd, 0xc9, 0xc9, 0x07, 0x00, 0x00}}},
		"twoblocks":  {{Fin: true, RSV1: true, Op: 1, Payload: []byte{0xf2, 0x48, 0x05, 0x00, 0x00, 0x00, 0xff, 0xff, 0xca, 0xc9, 0xc9, 0x07, 0x00}}},
	} {
		var m *WSMessage
		for _, f := range frames {
			m = push(f)
		}
		if m == nil || m.Op != 1 || string(m.Data) != "Hello" || !m.Compressed || m.Frames != len(frames) {
			t.Errorf("%s: %+v", name, m)
		}
	}
	// compressed empty message: a single 0x00 byte
	if m := push(WSFrame{Fin: true, RSV1: true, Op: 2, Payload: []byte{0x00}}); m == nil || len(m.Data) != 0 || !m.Compressed || m.Op != 2 {
		t.Errorf("empty compressed: %+v", m)
	}
	// violations
	for name, frames := range map[string][]WSFrame{
		"cont without start":  {{Fin: true, Op: 0}},
		"data while open":     {{Op: 1}, {Fin: true, Op: 2}},
		"fragmented control":  {{Op: 9}},
		"fragmented close":    {{Op: 8}},
		"long control":        {{Fin: true, Op: 10, Payload: make([]byte, 126)}},
		"rsv1 control":        {{Fin: true, RSV1: true, Op: 9}},
		"rsv1 continuation":   {{RSV1: true, Op: 1}, {Fin: true, RSV1: true, Op: 0}},
		"reserved opcode":     {{Fin: true, Op: 3}},
		"reserved control op": {{Fin: true, Op: 11}},
		"bad deflate":         {{Fin: true, RSV1: true, Op: 1, Payload: []byte{0xff, 0xff, 0xff}}},
		"close 1 byte":        {{Fin: true, Op: 8, Payload: []byte{3}}},
	} {
		var b WSAssembler
		var err error
		for _, f := range frames {
			_, err = b.Push(f)
		}
		if err == nil {
			t.Errorf("%s: no error", name)
		}
	}
}

func TestWSClose(t *testing.T) {
	if got := WSClosePayload(1000, ""); !bytes.Equal(got, []byte{0x03, 0xe8}) {
		t.Errorf("% x", got)
	}
	if got := WSClosePayload(1001, "bye"); !bytes.Equal(got, []byte{0x03, 0xe9, 'b', 'y', 'e'}) {
		t.Errorf("% x", got)
	}
	for _, c := range []struct {
		p      []byte
		code   int
		reason string
	}{
		{nil, 1005, ""}, {[]byte{1}, -1, ""}, {[]byte{0x03, 0xe8}, 1000, ""}, {[]byte{0x0f, 0xa0, 'x', 'y'}, 4000, "xy"},
	} {
		if code, reason := ParseWSClose(c.p); code != c.code || reason != c.reason {
			t.Errorf("ParseWSClose(% x) = %d %q", c.p, code, reason)
		}
	}
}

// ---------------------------------------------------------------------------

func TestWTVectors(t *testing.T) {
	d200 := bytes.Repeat([]byte{7}, 200)
	d64k := bytes.Repeat([]byte{9}, 65536)
	cases := []struct {
		m    WTMsg
		wire []byte
	}{
		{WTMsg{false, []byte("4hi")}, []byte{0x03, '4', 'h', 'i'}},
		{WTMsg{true, []byte{1, 2}}, []byte{0x82, 1, 2}},
		{WTMsg{false, []byte{}}, []byte{0x00}},
		{WTMsg{true, []byte{}}, []byte{0x80}},
		{WTMsg{true, d200}, append([]byte{0xfe, 0x00, 0xc8}, d200...)},
		{WTMsg{false, d200}, append([]byte{0x7e, 0x00, 0xc8}, d200...)},
		{WTMsg{false, d64k}, append([]byte{0x7f, 0, 0, 0, 0, 0, 1, 0, 0}, d64k...)},
		{WTMsg{true, d64k}, append([]byte{0xff, 0, 0, 0, 0, 0, 1, 0, 0}, d64k...)},
	}
	var stream []byte
	var all []WTMsg
	for i, c := range cases {
		got := AppendWTFrame(nil, c.m)
		if !bytes.Equal(got, c.wire) {
			t.Errorf("case %d: % x", i, got[:min(len(got), 12)])
		}
		stream = append(stream, c.wire...)
		all = append(all, c.m)
	}
	msgs, rest, err := DecodeWTStream(stream)
	if err != nil || len(rest) != 0 || !sameWT(msgs, all) {
		t.Errorf("DecodeWTStream: %d msgs rest=%d err=%v", len(msgs), len(rest), err)
	}
	// boundaries of the minimal form
	for n, hdr := range map[int]int{125: 1, 126: 3, 65535: 3, 65536: 9} {
		if got := AppendWTFrame(nil, WTMsg{Data: make([]byte, n)}); len(got) != n+hdr {
			t.Errorf("len %d: header %d", n, len(got)-n)
		}
	}
	// non-minimal forms
	if got := AppendWTFrameForm(nil, WTMsg{true, []byte("ab")}, 1); !bytes.Equal(got, []byte{0xfe, 0, 2, 'a', 'b'}) {
		t.Errorf("% x", got)
	}
	if got := AppendWTFrameForm(nil, WTMsg{false, []byte("ab")}, 2); !bytes.Equal(got, []byte{0x7f, 0, 0, 0, 0, 0, 0, 0, 2, 'a', 'b'}) {
		t.Errorf("% x", got)
	}
	msgs, rest, err = DecodeWTStream([]byte{0xfe, 0, 2, 'a', 'b', 0x7f, 0, 0, 0, 0, 0, 0, 0, 1, 'c', 0x05, 'x'})
	if err != nil || !sameWT(msgs, []WTMsg{{true, []byte("ab")}, {false, []byte("c")}}) || !bytes.Equal(rest, []byte{0x05, 'x'}) {
		t.Errorf("non-minimal decode: %v % x %v", msgs, rest, err)
	}
	// incomplete headers
	for _, in := range [][]byte{{0x7e}, {0x7e, 0}, {0xff, 0, 0, 0}, {0x7e, 0, 5, 1, 2}} {
		msgs, rest, err := DecodeWTStream(in)
		if err != nil || len(msgs) != 0 || !bytes.Equal(rest, in) {
			t.Errorf("% x: %v % x %v", in, msgs, rest, err)
		}
	}
	// huge but legal length: incomplete, not an error
	in := []byte{0x7f, 0x7f, 0xff, 0xff, 0xff, 0xff, 0xff, 0xff, 0xff, 1}
	if msgs, rest, err := DecodeWTStream(in); err != nil || len(msgs) != 0 || !bytes.Equal(rest, in) {
		t.Errorf("huge: %v % x %v", msgs, rest, err)
	}
	in = []byte{0x01, 'z', 0xff, 0x80, 0, 0, 0, 0, 0, 0, 0, 1}
	if msgs, rest, err := DecodeWTStream(in); !errors.Is(err, ErrWTLengthTopBit) || len(msgs) != 1 || !bytes.Equal(rest, in[2:]) {
		t.Errorf("top bit: %v % x %v", msgs, rest, err)
	}
	for _, f := range []func(){
		func() { AppendWTFrameForm(nil, WTMsg{Data: make([]byte, 126)}, 0) },
		func() { AppendWTFrameForm(nil, WTMsg{Data: make([]byte, 65536)}, 1) },
		func() { AppendWTFrameForm(nil, WTMsg{}, 3) },
	} {
		func() {
			defer func() {
				if recover() == nil {
					t.Errorf("expected panic")
				}
			}()
			f()
		}()
	}
}

func sameWT(a, b []WTMsg) bool {
	if len(a) != len(b) {
		return false
	}
	for i := range a {
		if a[i].Binary != b[i].Binary || !bytes.Equal(a[i].Data, b[i].Data) {
			return false
		}
	}
	return true
}

// ---------------------------------------------------------------------------

// "Hello" as a single final stored DEFLATE block.
var rawHello = []byte{0x01, 0x05, 0x00, 0xfa, 0xff, 'H', 'e', 'l', 'l', 'o'}

func TestDecodeContentVectors(t *testing.T) {
	zl := append(append([]byte{0x78, 0x01}, rawHello...), 0x05, 0x8c, 0x01, 0xf5)                                        // adler32("Hello")
	gz := append(append([]byte{0x1f, 0x8b, 8, 0, 0, 0, 0, 0, 0, 0xff}, rawHello...), 0x82, 0x89, 0xd1, 0xf7, 5, 0, 0, 0) // crc32, isize
	for _, c := range []struct {
		coding string
		body   []byte
	}{
		{"", []byte("Hello")}, {"identity", []byte("Hello")}, {"gzip", gz}, {"x-gzip", gz}, {" GZip ", gz}, {"deflate", zl},
	} {
		got, err := DecodeContent(c.coding, c.body)
		if err != nil || string(got) != "Hello" {
			t.Errorf("DecodeContent(%q) = %q, %v", c.coding, got, err)
		}
	}
	// raw deflate under the name "deflate" is wrong, and recognisable
	if _, err := DecodeContent("deflate", rawHello); err == nil {
		t.Errorf("raw deflate accepted as deflate")
	}
	if out, ok := IsRawDeflate(rawHello); !ok || string(out) != "Hello" {
		t.Errorf("IsRawDeflate(raw) = %q %v", out, ok)
	}
	for name, b := range map[string][]byte{"zlib": zl, "gzip": gz, "empty": nil, "text": []byte("4hello"), "trailing": append(append([]byte{}, rawHello...), 0), "truncated": rawHello[:7]} {
		if _, ok := IsRawDeflate(b); ok {
			t.Errorf("IsRawDeflate(%s) = true", name)
		}
	}
	bad := []struct {
		coding string
		body   []byte
	}{
		{"compress", []byte("x")}, {"gzip", nil}, {"gzip", zl}, {"gzip", gz[:len(gz)-1]}, {"gzip", append(append([]byte{}, gz...), 'x')},
		{"deflate", nil}, {"deflate", gz}, {"deflate", zl[:len(zl)-1]}, {"deflate", append(append([]byte{}, zl...), 'x')},
		{"br", nil}, {"zstd", nil}, {"zstd", []byte("hello")}, {"gzip, bogus", gz},
	}
	corrupt := append([]byte{}, zl...)
	corrupt[len(corrupt)-1] ^= 1
	bad = append(bad, struct {
		coding string
		body   []byte
	}{"deflate", corrupt})
	for _, c := range bad {
		if got, err := DecodeContent(c.coding, c.body); err == nil {
			t.Errorf("DecodeContent(%q, % x) = %q, want error", c.coding, c.body, got)
		}
	}
}

func TestDecodeContentRoundTrip(t *testing.T) {
	plain := []byte(strings.Repeat("4hello\x1e2\x1e4€", 100))
	enc := map[string]func(io.Writer) io.WriteCloser{
		"gzip":    func(w io.Writer) io.WriteCloser { return gzip.NewWriter(w) },
		"deflate": func(w io.Writer) io.WriteCloser { return zlib.NewWriter(w) },
		"br":      func(w io.Writer) io.WriteCloser { return brotli.NewWriter(w) },
		"zstd": func(w io.Writer) io.WriteCloser {
			z, err := zstd.NewWriter(w, zstd.WithEncoderConcurrency(1))
			if err != nil {
				t.Fatal(err)
			}
			return z
		},
		"raw": func(w io.Writer) io.WriteCloser { z, _ := flate.NewWriter(w, flate.BestSpeed); return z },
	}
	bodies := map[string][]byte{}
	for name, mk := range enc {
		var buf bytes.Buffer
		w := mk(&buf)
		w.Write(plain)
		w.Close()
		bodies[name] = buf.Bytes()
	}
	for _, name := range []string{"gzip", "deflate", "br", "zstd"} {
		got, err := DecodeContent(name, bodies[name])
		if err != nil || !bytes.Equal(got, plain) {
			t.Errorf("%s: %v (len %d)", name, err, len(got))
		}
		if len(bodies[name]) > 8 {
			if _, err := DecodeContent(name, bodies[name][:len(bodies[name])-4]); err == nil {
				t.Errorf("%s: truncated body accepted", name)
			}
		}
	}
	// every proper prefix, and any trailing byte, is rejected
	for _, name := range []string{"gzip", "deflate", "br", "zstd"} {
		b := bodies[name]
		for cut := 0; cut < len(b); cut++ {
			if _, err := DecodeContent(name, b[:cut]); err == nil {
				t.Errorf("%s: prefix %d/%d accepted", name, cut, len(b))
			}
		}
		{
			if _, err := DecodeContent(name, append(append([]byte{}, b...), 0)); err == nil {
				t.Errorf("%s: trailing byte accepted", name)
			}
		}
	}
	if out, ok := IsRawDeflate(bodies["raw"]); !ok || !bytes.Equal(out, plain) {
		t.Errorf("IsRawDeflate(raw) = %v", ok)
	}
	if _, err := DecodeContent("deflate", bodies["raw"]); err == nil {
		t.Errorf("raw deflate accepted as deflate")
	}
	// stacked codings: gzip applied first, then br
	var buf bytes.Buffer
	w := brotli.NewWriter(&buf)
	w.Write(bodies["gzip"])
	w.Close()
	if got, err := DecodeContent("gzip, br", buf.Bytes()); err != nil || !bytes.Equal(got, plain) {
		t.Errorf("stacked: %v", err)
	}
}

func TestAcceptsCoding(t *testing.T) {
	for _, c := range []struct {
		ae, coding       string
		accepted, listed bool
	}{
		{"gzip, deflate, br", "gzip", true, true},
		{"gzip, deflate, br", "br", true, true},
		{"gzip, deflate, br", "zstd", false, false},
		{"GZIP", "gzip", true, true},
		{" gzip ; q=0.5 , br;q=0", "gzip", true, true},
		{" gzip ; q=0.5 , br;q=0", "br", false, true},
		{"br;q=0.0", "br", false, true},
		{"br;Q=0.000", "br", false, true},
		{"br;q=0.001", "br", true, true},
		{"*", "gzip", false, false},
		{"*;q=1, identity", "gzip", false, false},
		{"", "gzip", false, false},
		{"gzipx, xgzip", "gzip", false, false},
		{"x-gzip", "gzip", false, false},
		{"gzip;q=0, gzip", "gzip", true, true},
		{"deflate,gzip;q=1.0", "gzip", true, true},
		{"gzip", "", false, false},
	} {
		a, l := AcceptsCoding(c.ae, c.coding)
		if a != c.accepted || l != c.listed {
			t.Errorf("AcceptsCoding(%q,%q) = %v,%v want %v,%v", c.ae, c.coding, a, l, c.accepted, c.listed)
		}
	}
}

// ---------------------------------------------------------------------------
// seeded round-trip properties
// ---------------------------------------------------------------------------

var alphabet = []string{"a", "b", "0", "4", ":", "b4", "\x1e", "\n", `\n`, `"`, "é", "€", "\u2028", "😀", "𝄞", "\x00", " ", "</script>"}

func randText(r *rand.Rand) []byte {
	var b []byte
	for n := r.Intn(12); n > 0; n-- {
		b = append(b, alphabet[r.Intn(len(alphabet))]...)
	}
	return b
}

func randBytes(r *rand.Rand, max int) []byte {
	b := make([]byte, r.Intn(max+1))
	r.Read(b)
	return b
}

// randPackets: v4-representable packets (binary only for messages, and no
// 0x1e inside text since v4 cannot carry it in a polling payload).
func randPackets(r *rand.Rand, allowBinary, allowRS bool) []Packet {
	ps := make([]Packet, 1+r.Intn(6))
	for i := range ps {
		if allowBinary && r.Intn(3) == 0 {
			ps[i] = Packet{Type: Message, Data: randBytes(r, 40), Binary: true}
			continue
		}
		d := randText(r)
		if !allowRS {
			d = bytes.ReplaceAll(d, []byte{0x1e}, []byte("?"))
		}
		ps[i] = Packet{Type: r.Intn(7), Data: d}
	}
	return ps
}

func TestRoundTripPayloads(t *testing.T) {
	r := rand.New(rand.NewSource(20260929))
	for i := 0; i < 2000; i++ {
		ps := randPackets(r, true, false)
		got, err := DecodePayloadV4(EncodePayloadV4(ps))
		if err != nil || !samePackets(got, ps) {
			t.Fatalf("v4 #%d: %v -> %v (%v)", i, ps, got, err)
		}
		ps = randPackets(r, true, true)
		if r.Intn(4) == 0 { // v3 can carry binary packets of any type
			ps = append(ps, Packet{Type: r.Intn(7), Data: randBytes(r, 10), Binary: true})
		}
		anyBin := false
		for _, p := range ps {
			anyBin = anyBin || p.Binary
		}
		for _, sup := range []bool{false, true} {
			body, isBin := EncodePayloadV3(ps, sup)
			if isBin != (sup && anyBin) {
				t.Fatalf("v3 #%d: binaryBody=%v sup=%v anyBin=%v", i, isBin, sup, anyBin)
			}
			got, err := DecodePayloadV3(body, isBin)
			if err != nil || !samePackets(got, ps) {
				t.Fatalf("v3 #%d sup=%v: %v -> %q -> %v (%v)", i, sup, ps, body, got, err)
			}
		}
		for _, p := range ps {
			for _, v := range []int{3, 4} {
				if v == 4 && p.Binary && p.Type != Message {
					continue
				}
				for _, sup := range []bool{false, true} {
					data, bf := EncodePacket(p, v, sup)
					if bf != (p.Binary && sup) {
						t.Fatalf("packet #%d: binaryFrame=%v", i, bf)
					}
					got, err := DecodePacket(data, bf, v)
					if err != nil || !samePackets([]Packet{got}, []Packet{p}) {
						t.Fatalf("packet #%d v%d sup=%v: %v -> %q -> %v (%v)", i, v, sup, p, data, got, err)
					}
				}
			}
		}
	}
}

func TestRoundTripWT(t *testing.T) {
	r := rand.New(rand.NewSource(7))
	sizes := []int{0, 1, 125, 126, 127, 300, 65535, 65536, 70000}
	for i := 0; i < 200; i++ {
		var msgs []WTMsg
		var stream []byte
		for n := 1 + r.Intn(5); n > 0; n-- {
			var d []byte
			if r.Intn(4) == 0 {
				d = make([]byte, sizes[r.Intn(len(sizes))])
				r.Read(d)
			} else {
				d = randBytes(r, 200)
			}
			m := WTMsg{Binary: r.Intn(2) == 0, Data: d}
			form := r.Intn(3)
			if (form == 0 && len(d) >= 126) || (form == 1 && len(d) >= 65536) {
				stream = AppendWTFrame(stream, m)
			} else {
				stream = AppendWTFrameForm(stream, m, form)
			}
			msgs = append(msgs, m)
		}
		// feed in two arbitrary chunks, as a stream reader would
		cut := r.Intn(len(stream) + 1)
		got, rest, err := DecodeWTStream(stream[:cut])
		if err != nil {
			t.Fatalf("#%d: %v", i, err)
		}
		more, rest2, err := DecodeWTStream(append(append([]byte{}, rest...), stream[cut:]...))
		if err != nil || len(rest2) != 0 {
			t.Fatalf("#%d: rest=%d err=%v", i, len(rest2), err)
		}
		if got = append(got, more...); !sameWT(got, msgs) {
			t.Fatalf("#%d: mismatch (%d vs %d msgs)", i, len(got), len(msgs))
		}
	}
}

func deflateNoContext(t *testing.T, p []byte) []byte {
	var buf bytes.Buffer
	w, err := flate.NewWriter(&buf, flate.BestSpeed)
	if err != nil {
		t.Fatal(err)
	}
	w.Write(p)
	w.Flush() // sync flush: ends with 00 00 ff ff
	b := buf.Bytes()
	if !bytes.HasSuffix(b, []byte{0, 0, 0xff, 0xff}) {
		t.Fatalf("unexpected flush tail % x", b)
	}
	return b[:len(b)-4]
}

func TestRoundTripWS(t *testing.T) {
	r := rand.New(rand.NewSource(42))
	sizes := []int{0, 125, 126, 65535, 65536}
	for i := 0; i < 300; i++ {
		type want struct {
			op         byte
			data       []byte
			compressed bool
			frames     int
		}
		var wants []want
		var wire []byte
		for n := 1 + r.Intn(4); n > 0; n-- {
			var key [4]byte
			r.Read(key[:])
			masked := r.Intn(2) == 0
			if r.Intn(5) == 0 { // control frame
				op := []byte{8, 9, 10}[r.Intn(3)]
				d := randBytes(r, 125)
				if op == 8 {
					d = WSClosePayload(1000+r.Intn(16), string(randText(r)))
					if len(d) > 125 {
						d = d[:125]
					}
				}
				wire = AppendWSFrame(wire, WSFrame{Fin: true, Op: op, Masked: masked, Payload: d}, key)
				wants = append(wants, want{op, d, false, 1})
				continue
			}
			var data []byte
			if r.Intn(6) == 0 {
				data = make([]byte, sizes[r.Intn(len(sizes))])
				r.Read(data)
			} else {
				data = bytes.Repeat(randText(r), 1+r.Intn(5))
			}
			op := byte(1 + r.Intn(2))
			compressed := r.Intn(2) == 0
			payload := data
			if compressed {
				payload = deflateNoContext(t, data)
			}
			nfr := 1 + r.Intn(4)
			for k := 0; k < nfr; k++ {
				cut := len(payload)
				if k < nfr-1 {
					cut = r.Intn(len(payload) + 1)
				}
				f := WSFrame{Fin: k == nfr-1, RSV1: compressed && k == 0, Op: op, Masked: masked, Payload: payload[:cut]}
				if k > 0 {
					f.Op = 0
				}
				r.Read(key[:])
				wire = AppendWSFrame(wire, f, key)
				payload = payload[cut:]
			}
			wants = append(wants, want{op, data, compressed, nfr})
		}
		rd := bytes.NewReader(wire)
		var a WSAssembler
		var got []*WSMessage
		for {
			f, err := ReadWSFrame(rd)
			if err == io.EOF {
				break
			}
			if err != nil {
				t.Fatalf("#%d: ReadWSFrame: %v", i, err)
			}
			m, err := a.Push(f)
			if err != nil {
				t.Fatalf("#%d: Push: %v", i, err)
			}
			if m != nil {
				got = append(got, m)
			}
		}
		if len(got) != len(wants) {
			t.Fatalf("#%d: %d messages want %d", i, len(got), len(wants))
		}
		for k, w := range wants {
			g := got[k]
			if g.Op != w.op || !bytes.Equal(g.Data, w.data) || g.Compressed != w.compressed || g.Frames != w.frames {
				t.Fatalf("#%d/%d: got op=%d len=%d c=%v fr=%d want op=%d len=%d c=%v fr=%d", i, k,
					g.Op, len(g.Data), g.Compressed, g.Frames, w.op, len(w.data), w.compressed, w.frames)
			}
		}
	}
}

func TestDecodersNoPanic(t *testing.T) {
	r := rand.New(rand.NewSource(99))
	for i := 0; i < 5000; i++ {
		b := randBytes(r, 24)
		if r.Intn(2) == 0 { // bias towards structurally plausible input
			b = append([]byte{byte(r.Intn(3)), byte(r.Intn(12))}, b...)
		}
		DecodePayloadV4(b)
		DecodePayloadV3(b, false)
		DecodePayloadV3(b, true)
		DecodePacket(b, r.Intn(2) == 0, 3+r.Intn(2))
		ParseJSONP(b)
		ParseJSONP(append([]byte(`___eio[0]("`), b...))
		ScriptSafe(string(b))
		DecodeWTStream(b)
		ParseWSClose(b)
		IsRawDeflate(b)
		AcceptsCoding(string(b), "gzip")
		if i%10 == 0 {
			for _, c := range []string{"gzip", "deflate", "br", "zstd"} {
				DecodeContent(c, b)
			}
		}
		rd := bytes.NewReader(b)
		var a WSAssembler
		for {
			f, err := ReadWSFrame(rd)
			if err != nil {
				break
			}
			a.Push(f)
		}
	}
}
