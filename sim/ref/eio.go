// Package ref is a small, independent reference codec used as a test oracle
// for an Engine.IO server. It is written from the protocol specifications
// (Engine.IO protocol revisions 3 and 4, RFC 6455, RFC 7692, RFC 9110) and
// deliberately shares no code with the implementation under test.
package ref

import (
	"bytes"
	"encoding/base64"
	"encoding/json"
	"errors"
	"fmt"
	"net/url"
	"strconv"
	"strings"
	"unicode/utf8"
)

// Engine.IO packet types.
const (
	Open    = 0
	Close   = 1
	Ping    = 2
	Pong    = 3
	Message = 4
	Upgrade = 5
	Noop    = 6
)

// Packet is an Engine.IO packet. Type is 0..6 (0 open, 1 close, 2 ping,
// 3 pong, 4 message, 5 upgrade, 6 noop).
type Packet struct {
	Type   int
	Data   []byte
	Binary bool
}

const recordSeparator = 0x1e

func validType(t int) bool { return t >= 0 && t <= 6 }

func typeDigit(t int) byte {
	if !validType(t) {
		panic(fmt.Sprintf("ref: invalid packet type %d", t))
	}
	return byte('0' + t)
}

func b64enc(dst []byte, data []byte) []byte {
	n := base64.StdEncoding.EncodedLen(len(data))
	off := len(dst)
	dst = append(dst, make([]byte, n)...)
	base64.StdEncoding.Encode(dst[off:], data)
	return dst
}

func b64dec(s []byte) ([]byte, error) {
	out := make([]byte, base64.StdEncoding.DecodedLen(len(s)))
	n, err := base64.StdEncoding.Decode(out, s)
	if err != nil {
		return nil, fmt.Errorf("ref: bad base64: %w", err)
	}
	return out[:n], nil
}

func cloneBytes(b []byte) []byte {
	out := make([]byte, len(b))
	copy(out, b)
	return out
}

// UTF16Len returns the number of UTF-16 code units (JavaScript
// String.length) of the UTF-8 string s. Each invalid byte counts 1.
func UTF16Len(s []byte) int {
	n := 0
	for len(s) > 0 {
		r, size := utf8.DecodeRune(s)
		if r >= 0x10000 {
			n += 2
		} else {
			n++
		}
		s = s[size:]
	}
	return n
}

// ---------------------------------------------------------------------------
// protocol revision 4 payload
// ---------------------------------------------------------------------------

// appendTextPacketV4 appends the v4 textual form of p (also used for b64 mode).
func appendTextPacketV4(dst []byte, p Packet) []byte {
	if p.Binary && p.Type == Message {
		dst = append(dst, 'b')
		return b64enc(dst, p.Data)
	}
	dst = append(dst, typeDigit(p.Type))
	return append(dst, p.Data...)
}

// EncodePayloadV4 encodes packets as a revision 4 polling payload: packets
// joined by 0x1e; text packet = type digit + data; binary message = 'b' +
// padded standard base64. Binary is honoured only for message packets.
func EncodePayloadV4(ps []Packet) []byte {
	var out []byte
	for i, p := range ps {
		if i > 0 {
			out = append(out, recordSeparator)
		}
		out = appendTextPacketV4(out, p)
	}
	return out
}

func decodeTextPacketV4(s []byte) (Packet, error) {
	if len(s) == 0 {
		return Packet{}, errors.New("ref: empty packet")
	}
	if s[0] == 'b' {
		d, err := b64dec(s[1:])
		if err != nil {
			return Packet{}, err
		}
		return Packet{Type: Message, Data: d, Binary: true}, nil
	}
	if s[0] < '0' || s[0] > '6' {
		return Packet{}, fmt.Errorf("ref: unknown packet type char %q", s[0])
	}
	return Packet{Type: int(s[0] - '0'), Data: cloneBytes(s[1:])}, nil
}

// DecodePayloadV4 decodes a revision 4 polling payload. An empty body, an
// empty packet between separators, an unknown type character or invalid
// base64 is an error.
func DecodePayloadV4(body []byte) ([]Packet, error) {
	if len(body) == 0 {
		return nil, errors.New("ref: empty payload")
	}
	var out []Packet
	for _, part := range bytes.Split(body, []byte{recordSeparator}) {
		p, err := decodeTextPacketV4(part)
		if err != nil {
			return nil, err
		}
		out = append(out, p)
	}
	return out, nil
}

// ---------------------------------------------------------------------------
// protocol revision 3 payload
// ---------------------------------------------------------------------------

// appendTextPacketV3 appends the v3 textual form of p: type digit + data, or
// for a binary packet `b<type digit><base64>`.
func appendTextPacketV3(dst []byte, p Packet) []byte {
	if p.Binary {
		dst = append(dst, 'b', typeDigit(p.Type))
		return b64enc(dst, p.Data)
	}
	dst = append(dst, typeDigit(p.Type))
	return append(dst, p.Data...)
}

func decodeTextPacketV3(s []byte) (Packet, error) {
	if len(s) == 0 {
		return Packet{}, errors.New("ref: empty packet")
	}
	if s[0] == 'b' {
		if len(s) < 2 || s[1] < '0' || s[1] > '6' {
			return Packet{}, errors.New("ref: bad base64 packet type")
		}
		d, err := b64dec(s[2:])
		if err != nil {
			return Packet{}, err
		}
		return Packet{Type: int(s[1] - '0'), Data: d, Binary: true}, nil
	}
	if s[0] < '0' || s[0] > '6' {
		return Packet{}, fmt.Errorf("ref: unknown packet type char %q", s[0])
	}
	return Packet{Type: int(s[0] - '0'), Data: cloneBytes(s[1:])}, nil
}

// EncodePayloadV3 encodes packets as a revision 3 polling payload. The binary
// form is used iff supportsBinary and at least one packet is Binary; otherwise
// the string form is used (binary packets as b<type><base64>). An empty packet
// list encodes as "0:" (string form).
func EncodePayloadV3(ps []Packet, supportsBinary bool) (body []byte, binaryBody bool) {
	if supportsBinary {
		for _, p := range ps {
			if p.Binary {
				binaryBody = true
				break
			}
		}
	}
	if len(ps) == 0 {
		return []byte("0:"), false
	}
	var out []byte
	if !binaryBody {
		for _, p := range ps {
			pk := appendTextPacketV3(nil, p)
			out = strconv.AppendInt(out, int64(UTF16Len(pk)), 10)
			out = append(out, ':')
			out = append(out, pk...)
		}
		return out, false
	}
	for _, p := range ps {
		var content []byte
		if p.Binary {
			out = append(out, 0x01)
			typeDigit(p.Type) // validate
			content = append([]byte{byte(p.Type)}, p.Data...)
		} else {
			out = append(out, 0x00)
			content = append([]byte{typeDigit(p.Type)}, p.Data...)
		}
		for _, d := range strconv.Itoa(len(content)) {
			out = append(out, byte(d-'0'))
		}
		out = append(out, 0xff)
		out = append(out, content...)
	}
	return out, true
}

// DecodePayloadV3 decodes a revision 3 polling payload in string form
// (binaryBody false) or binary form (binaryBody true). An empty body is an
// error. A zero-length entry ("0:") yields no packet, as in the reference JS
// parser.
func DecodePayloadV3(body []byte, binaryBody bool) ([]Packet, error) {
	if len(body) == 0 {
		return nil, errors.New("ref: empty payload")
	}
	if binaryBody {
		return decodePayloadV3Binary(body)
	}
	return decodePayloadV3String(body)
}

const maxLenDigits = 15

func decodePayloadV3String(body []byte) ([]Packet, error) {
	var out []Packet
	for len(body) > 0 {
		colon := bytes.IndexByte(body, ':')
		if colon < 0 {
			return nil, errors.New("ref: v3 payload: missing ':'")
		}
		if colon == 0 || colon > maxLenDigits {
			return nil, errors.New("ref: v3 payload: bad length")
		}
		n := 0
		for _, c := range body[:colon] {
			if c < '0' || c > '9' {
				return nil, fmt.Errorf("ref: v3 payload: bad length char %q", c)
			}
			n = n*10 + int(c-'0')
		}
		body = body[colon+1:]
		// consume n UTF-16 code units
		units, off := 0, 0
		for units < n {
			if off >= len(body) {
				return nil, errors.New("ref: v3 payload: packet shorter than declared length")
			}
			r, size := utf8.DecodeRune(body[off:])
			if r >= 0x10000 {
				units += 2
			} else {
				units++
			}
			off += size
		}
		if units != n {
			return nil, errors.New("ref: v3 payload: length splits a surrogate pair")
		}
		if n > 0 {
			p, err := decodeTextPacketV3(body[:off])
			if err != nil {
				return nil, err
			}
			out = append(out, p)
		}
		body = body[off:]
	}
	return out, nil
}

func decodePayloadV3Binary(body []byte) ([]Packet, error) {
	var out []Packet
	for len(body) > 0 {
		kind := body[0]
		if kind != 0 && kind != 1 {
			return nil, fmt.Errorf("ref: v3 binary payload: bad packet kind byte 0x%02x", kind)
		}
		body = body[1:]
		n, digits := 0, 0
		for {
			if len(body) == 0 {
				return nil, errors.New("ref: v3 binary payload: truncated length")
			}
			c := body[0]
			body = body[1:]
			if c == 0xff {
				break
			}
			if c > 9 {
				return nil, fmt.Errorf("ref: v3 binary payload: bad length digit 0x%02x", c)
			}
			digits++
			if digits > maxLenDigits {
				return nil, errors.New("ref: v3 binary payload: length too long")
			}
			n = n*10 + int(c)
		}
		if digits == 0 {
			return nil, errors.New("ref: v3 binary payload: missing length")
		}
		if n > len(body) {
			return nil, errors.New("ref: v3 binary payload: packet shorter than declared length")
		}
		content := body[:n]
		body = body[n:]
		if n == 0 {
			return nil, errors.New("ref: v3 binary payload: empty packet")
		}
		if kind == 0 {
			p, err := decodeTextPacketV3(content)
			if err != nil {
				return nil, err
			}
			out = append(out, p)
			continue
		}
		if content[0] > 6 {
			return nil, fmt.Errorf("ref: v3 binary payload: unknown packet type byte 0x%02x", content[0])
		}
		out = append(out, Packet{Type: int(content[0]), Data: cloneBytes(content[1:]), Binary: true})
	}
	return out, nil
}

// ---------------------------------------------------------------------------
// single packets in WebSocket / WebTransport frames
// ---------------------------------------------------------------------------

// EncodePacket encodes a single packet for a framed transport.
//
// v4: text frame = type digit + data; a binary message is a binary frame with
// the raw data only, or (no binary support) the text frame 'b' + base64.
// Binary is honoured only for message packets in v4.
//
// v3: text frame = type digit + data; a binary packet is a binary frame whose
// first byte is the numeric type followed by raw data, or (no binary support)
// the text frame `b<type digit><base64>`.
//
// Any version other than 3 is treated as 4.
func EncodePacket(p Packet, version int, supportsBinary bool) (data []byte, binaryFrame bool) {
	if version == 3 {
		if p.Binary && supportsBinary {
			typeDigit(p.Type) // validate
			return append([]byte{byte(p.Type)}, p.Data...), true
		}
		return appendTextPacketV3(nil, p), false
	}
	if p.Binary && p.Type == Message && supportsBinary {
		return cloneBytes(p.Data), true
	}
	return appendTextPacketV4(nil, p), false
}

// DecodePacket decodes a single packet carried in a text or binary frame.
func DecodePacket(data []byte, binaryFrame bool, version int) (Packet, error) {
	if version == 3 {
		if binaryFrame {
			if len(data) == 0 {
				return Packet{}, errors.New("ref: empty binary packet")
			}
			if data[0] > 6 {
				return Packet{}, fmt.Errorf("ref: unknown packet type byte 0x%02x", data[0])
			}
			return Packet{Type: int(data[0]), Data: cloneBytes(data[1:]), Binary: true}, nil
		}
		return decodeTextPacketV3(data)
	}
	if binaryFrame {
		return Packet{Type: Message, Data: cloneBytes(data), Binary: true}, nil
	}
	return decodeTextPacketV4(data)
}

// ---------------------------------------------------------------------------
// JSONP polling
// ---------------------------------------------------------------------------

// ParseJSONP parses a JSONP poll response body of the exact form
//
//	___eio[<idx>]("<JS string literal>");
//
// idx is the text between '[' and the first ']' (not validated), lit is the
// raw literal text including its quotes, payload is lit decoded as a JSON
// string literal.
func ParseJSONP(body []byte) (idx string, lit string, payload string, err error) {
	s := string(body)
	const prefix = "___eio["
	if !strings.HasPrefix(s, prefix) {
		return "", "", "", errors.New("ref: jsonp: body does not start with ___eio[")
	}
	rest := s[len(prefix):]
	end := strings.IndexByte(rest, ']')
	if end < 0 {
		return "", "", "", errors.New("ref: jsonp: missing ']'")
	}
	idx = rest[:end]
	rest = rest[end+1:]
	if !strings.HasPrefix(rest, "(") {
		return idx, "", "", errors.New("ref: jsonp: missing '(' after index")
	}
	rest = rest[1:]
	if !strings.HasSuffix(rest, ");") {
		return idx, "", "", errors.New("ref: jsonp: body does not end with \");\"")
	}
	lit = rest[:len(rest)-2]
	if len(lit) < 2 || lit[0] != '"' || lit[len(lit)-1] != '"' {
		return idx, lit, "", errors.New("ref: jsonp: argument is not a double-quoted string literal")
	}
	if e := json.Unmarshal([]byte(lit), &payload); e != nil {
		return idx, lit, "", fmt.Errorf("ref: jsonp: bad string literal: %w", e)
	}
	return idx, lit, payload, nil
}

// ScriptSafe reports whether a JS string literal (raw text including the
// quotes) can be embedded in a <script> block and evaluated without
// terminating the string or the script.
func ScriptSafe(lit string) bool {
	if len(lit) < 2 || lit[0] != '"' || lit[len(lit)-1] != '"' {
		return false
	}
	inner := lit[1 : len(lit)-1]
	esc := false
	for _, r := range inner {
		switch {
		case r == '\n' || r == '\r' || r == 0x2028 || r == 0x2029:
			return false
		case esc:
			esc = false
		case r == '\\':
			esc = true
		case r == '"':
			return false
		}
	}
	if esc { // closing quote is escaped: string not terminated
		return false
	}
	low := strings.ToLower(lit)
	if strings.Contains(low, "</script") || strings.Contains(lit, "<!--") {
		return false
	}
	return true
}

// EncodeJSONPForm builds the application/x-www-form-urlencoded body a JSONP
// client POSTs: d=<escaped payload>.
func EncodeJSONPForm(payload string) []byte {
	v := strings.ReplaceAll(payload, `\n`, `\\n`)
	v = strings.ReplaceAll(v, "\n", `\n`)
	return []byte("d=" + url.QueryEscape(v))
}
