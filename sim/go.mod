module verif/sim

go 1.26.8

require (
	github.com/andybalholm/brotli v1.1.1
	github.com/anishathalye/porcupine v1.3.0
	github.com/gorilla/websocket v1.5.3
	github.com/klauspost/compress v1.18.0
	github.com/zishang520/engine.io-go-parser v1.3.2
	github.com/zishang520/webtransport-go v0.8.6
	github.com/quic-go/quic-go v0.50.1
	github.com/zishang520/engine.io/v2 v2.0.0-00010101000000-000000000000
)

replace github.com/zishang520/engine.io/v2 => /placeholder/repo
