package sim

import (
	"fmt"
	"sort"
	"strings"
	"time"

	"github.com/zishang520/engine.io/v2/simrt"
	"github.com/zishang520/engine.io/v2/utils"
)

// TimerScen drives utils.Timer directly: 2-4 tasks issue SetTimeout /
// SetInterval / Refresh / Stop / Clear* at virtual instants on a grid around
// the due instants, with statement-level pre-emption inside utils/timer.go.
type TimerScen struct {
	Timers []TimerSpec `json:"timers"`
	Ops    []TimerOp   `json:"ops"`
	EndMs  int         `json:"endMs"`
}

type TimerSpec struct {
	Interval bool `json:"interval,omitempty"`
	PeriodMs int  `json:"period"`
	// callback behaviour: a callback that takes virtual time (so that cancellations, refreshes and
	// the next tick land while it runs) and/or cancels its own timer on its k-th run
	CbSleepMs    int `json:"cbSleep,omitempty"`
	SelfCancelAt int `json:"selfCancelAt,omitempty"`
}

type TimerOp struct {
	Task  string `json:"task"`
	AtMs  int    `json:"at"`
	Op    string `json:"op"` // create | refresh | stop | clear
	Timer int    `json:"timer"`
}

type timersFam struct {
	sc     *Scenario
	timers []*utils.Timer
	alive  []string
	done   bool
}

func init() {
	families["timers"] = func(sc *Scenario) family { return &timersFam{sc: sc} }
	generators["C19"] = []genFn{GenTimers}
	familyShrinkFns = append(familyShrinkFns, shrinkTimers)
}

func (f *timersFam) horizon() time.Duration {
	return time.Duration(f.sc.Timers.EndMs+2000) * time.Millisecond
}

func (f *timersFam) quiescent(w *World) {}

func (f *timersFam) setup(w *World) {
	ts := f.sc.Timers
	f.timers = make([]*utils.Timer, len(ts.Timers))
	by := map[string][]TimerOp{}
	for _, o := range ts.Ops {
		by[o.Task] = append(by[o.Task], o)
	}
	for _, name := range sortedKeys(by) {
		ops := by[name]
		sort.SliceStable(ops, func(i, j int) bool { return ops[i].AtMs < ops[j].AtMs })
		simrt.GoActor("t-"+name, func() {
			for _, o := range ops {
				if d := time.Duration(o.AtMs)*time.Millisecond - simrt.Now(); d > 0 {
					simrt.Sleep(d)
				}
				f.do(w, o)
			}
		})
	}
	simrt.GoActor("z-end", func() {
		simrt.Sleep(time.Duration(ts.EndMs) * time.Millisecond)
		// cancel whatever is left, then one more period for stragglers
		maxP := 0
		for i, t := range f.timers {
			if t != nil {
				w.recx(Ev{Kind: "stop-invoke", N: int64(i), S: "final"})
				utils.ClearTimeout(t)
				simrt.Yield(-5)
				w.recx(Ev{Kind: "stop-ret", N: int64(i), S: "final"})
			}
			// (a long-period timer is not waited for: cancelling it must dismiss its goroutine at once, not at
			// the instant it would have been due)
			if ts.Timers[i].PeriodMs > maxP && ts.Timers[i].PeriodMs < 1000 {
				maxP = ts.Timers[i].PeriodMs
			}
		}
		// a callback that was already running when its timer was cancelled may take its time to finish:
		// it is not a goroutine left behind
		for _, sp := range ts.Timers {
			if sp.CbSleepMs > 0 {
				maxP += sp.CbSleepMs
			}
		}
		simrt.Sleep(time.Duration(maxP+50) * time.Millisecond)
		w.rec("", "end", "", 0)
		f.alive = w.S.AliveTasks()
		f.done = true
		w.S.StopFlag.Store(true)
	})
}

func (f *timersFam) do(w *World, o TimerOp) {
	i := o.Timer
	sp := f.sc.Timers.Timers[i]
	p := time.Duration(sp.PeriodMs) * time.Millisecond
	switch o.Op {
	case "create":
		if f.timers[i] != nil {
			return
		}
		runs := 0
		cb := func() {
			w.recx(Ev{Kind: "fire", N: int64(i)})
			runs++
			k := runs
			simrt.Yield(-5)
			if sp.CbSleepMs > 0 {
				w.probe("slow_callback")
				simrt.Sleep(time.Duration(sp.CbSleepMs) * time.Millisecond)
			}
			if sp.SelfCancelAt > 0 && k == sp.SelfCancelAt && f.timers[i] != nil {
				w.probe("callback_cancels_own_timer")
				w.recx(Ev{Kind: "stop-invoke", N: int64(i), S: "self"})
				if sp.Interval {
					utils.ClearInterval(f.timers[i])
				} else {
					utils.ClearTimeout(f.timers[i])
				}
				simrt.Yield(-5)
				w.recx(Ev{Kind: "stop-ret", N: int64(i), S: "self"})
			}
		}
		w.recx(Ev{Kind: "create", N: int64(i), S: o.Task})
		if sp.Interval {
			f.timers[i] = utils.SetInterval(cb, p)
		} else {
			f.timers[i] = utils.SetTimeout(cb, p)
		}
		simrt.Yield(-5)
		w.recx(Ev{Kind: "create-ret", N: int64(i)})
	case "refresh":
		t := f.timers[i]
		if t == nil {
			return
		}
		w.recx(Ev{Kind: "refresh-invoke", N: int64(i), S: o.Task})
		t.Refresh()
		simrt.Yield(-5)
		w.recx(Ev{Kind: "refresh-ret", N: int64(i), S: o.Task})
	case "stop", "clear":
		t := f.timers[i]
		if t == nil {
			return
		}
		w.recx(Ev{Kind: "stop-invoke", N: int64(i), S: o.Task})
		if o.Op == "stop" {
			t.Stop()
		} else if sp.Interval {
			utils.ClearInterval(t)
		} else {
			utils.ClearTimeout(t)
		}
		simrt.Yield(-5)
		w.recx(Ev{Kind: "stop-ret", N: int64(i), S: o.Task})
	}
}

func (f *timersFam) finish(w *World, res *Result) {
	failureViolations(res, "C19", "C19")
	l := &vlist{prop: "C19"}
	ts := f.sc.Timers
	endT := simEnd(w)
	tieOps := false // some Refresh/Stop was issued at exactly a due instant
	anyRefreshAfterCancel := false
	concurrentRefresh := false // two Refresh calls of one timer overlapped
	for i, sp := range ts.Timers {
		kind := "timeout"
		if sp.Interval {
			kind = "interval"
		}
		p := time.Duration(sp.PeriodMs) * time.Millisecond
		var evs []Ev
		for _, e := range w.Evs {
			if int(e.N) == i && (e.Kind == "create" || e.Kind == "fire" || strings.HasPrefix(e.Kind, "refresh") || strings.HasPrefix(e.Kind, "stop")) {
				evs = append(evs, e)
			}
		}
		if len(evs) == 0 {
			continue
		}
		// walk the history
		armed := false // an arming is in force
		var armT time.Duration
		fired := 0 // fires since the last arming
		cancelled := false
		var cancelRetSeq int
		var cancelRetT time.Duration
		var cancelInvT time.Duration
		cancelPending := 0 // stop calls invoked but not returned
		refreshed := false
		tieTimer := false
		refreshAfterCancel := false
		var prevArmT time.Duration // arming replaced by the last refresh (for callbacks at the very instant of the refresh)
		prevFired, hadPrev := 0, false
		refreshPending := 0
		for _, e := range evs {
			switch e.Kind {
			case "refresh-ret":
				refreshPending--
			case "create":
				armed, armT, fired = true, e.T, 0
			case "refresh-invoke":
				if armed && e.T > armT && (e.T-armT)%p == 0 {
					tieOps, tieTimer = true, true
				}
				refreshPending++
				if refreshPending > 1 {
					concurrentRefresh = true
				}
				if cancelled || cancelPending > 0 {
					refreshAfterCancel = true // not covered by the statement: stop judging this timer
				}
				if !(refreshed && e.T == armT) { // a second refresh at the same instant keeps the older arming as the tie candidate
					prevArmT, prevFired, hadPrev = armT, fired, armed
				}
				armed, armT, fired, refreshed = true, e.T, 0, true
				cancelled = false
			case "stop-invoke":
				if armed && e.T > armT && (e.T-armT)%p == 0 {
					tieOps, tieTimer = true, true
				}
				cancelPending++
				if refreshPending > 0 {
					refreshAfterCancel = true // overlaps a refresh: the refresh may take effect after the cancellation
				}
				if !cancelled && cancelPending == 1 {
					cancelInvT = e.T
				}
			case "stop-ret":
				cancelPending--
				if !cancelled {
					cancelled, cancelRetSeq, cancelRetT = true, e.Seq, e.T
				}
			case "fire":
				if refreshAfterCancel {
					continue
				}
				if cancelled && e.Seq > cancelRetSeq {
					// discriminator: a callback in the very instant of a cancellation that was issued exactly when
					// the timer was due (the goroutine had committed to the callback) vs. a callback at a later instant
					when := "/later-instant-than-cancel"
					if e.T == cancelRetT {
						when = "/same-instant-as-cancel"
						if tieTimer && cancelInvT == cancelRetT {
							when = "/after-call-at-due-instant"
						}
					}
					l.add("no-callback-after-cancel-returned", kind+when, fmt.Sprintf("timer %d (%s %v): callback started at %v (event #%d) after the cancellation had returned (event #%d)", i, kind, p, e.T, e.Seq, cancelRetSeq))
					continue
				}
				if !armed {
					l.add("fires-only-when-armed", kind, fmt.Sprintf("timer %d: callback at %v without an arming", i, e.T))
					continue
				}
				// a callback at the very instant of a refresh may still belong to the arming the
				// refresh replaced (the timer was due exactly then): a tie, accepted once
				if refreshed && hadPrev && e.T == armT && e.T > prevArmT && (e.T-prevArmT)%p == 0 && (sp.Interval || prevFired == 0) {
					hadPrev = false
					w.probe("callback_at_refresh_instant")
					continue
				}
				if sp.Interval {
					k := int64((e.T - armT) / p)
					if (e.T-armT)%p != 0 || k < 1 {
						l.add("fires-at-due-time", kind, fmt.Sprintf("timer %d (interval %v armed at %v): callback at %v, not on a period boundary", i, p, armT, e.T))
					} else if int(k) != fired+1 {
						l.add("once-per-period", kind, fmt.Sprintf("timer %d (interval %v armed at %v): callback #%d at %v, expected tick #%d", i, p, armT, fired+1, e.T, k))
						fired = int(k) - 1
					}
					fired++
				} else {
					if e.T != armT+p {
						c := ""
						if refreshed {
							c = "/after-refresh"
						}
						l.add("fires-at-due-time", kind+c, fmt.Sprintf("timer %d (timeout %v armed at %v): callback at %v, due %v", i, p, armT, e.T, armT+p))
					}
					fired++
					if fired > 1 {
						l.add("exactly-once", kind, fmt.Sprintf("timer %d (timeout %v): callback ran %d times for one arming", i, p, fired))
					}
				}
			}
		}
		if refreshAfterCancel {
			w.probe("refresh_after_cancel")
			anyRefreshAfterCancel = true
			continue
		}
		if cancelPending > 0 && f.done {
			l.add("cancel-returns", kind, fmt.Sprintf("timer %d (%s): a cancellation never returned", i, kind))
		}
		// missing fires
		stopT := endT
		if cancelled || cancelPending > 0 {
			stopT = cancelInvT
		}
		if armed {
			if sp.Interval {
				// every tick strictly before the cancellation was invoked must have fired
				want := 0
				for k := 1; armT+time.Duration(k)*p < stopT; k++ {
					want = k
				}
				if fired < want {
					l.add("once-per-period", kind+"/missing", fmt.Sprintf("timer %d (interval %v armed at %v, cancelled at %v): %d callbacks, expected at least %d", i, p, armT, stopT, fired, want))
				}
			} else if fired == 0 && armT+p < stopT {
				c := ""
				if refreshed {
					c = "/after-refresh"
				}
				l.add("fires-when-due", kind+c, fmt.Sprintf("timer %d (timeout %v armed at %v): due at %v, never ran (cancelled: %v at %v)", i, p, armT, armT+p, cancelled, stopT))
			}
		}
	}
	if f.done && !anyRefreshAfterCancel { // reviving a cancelled timer is outside the statement, so is what it leaves behind
		for _, a := range f.alive {
			if strings.HasPrefix(a, "z-end") {
				continue
			}
			site := a
			if j := strings.Index(a, "["); j >= 0 {
				site = a[j:]
			}
			c := "timer-goroutine"
			if strings.HasPrefix(a, "t-") && !strings.Contains(a, "/") {
				c = "caller-blocked"
			} else if tieOps {
				c += "/after-call-at-due-instant"
			} else if concurrentRefresh {
				c += "/after-concurrent-refresh"
			}
			l.add("no-goroutine-left-behind", c, fmt.Sprintf("task %s still alive one period after every timer was cancelled (%s)", a, site))
		}
	} else if !f.done && res.Outcome != "fail" {
		l.add("cancel-returns", "run-stuck", fmt.Sprintf("the run did not reach its end (outcome %s): a timer call blocks forever; alive: %v", res.Outcome, res.Alive))
	}
	res.Viol = append(res.Viol, l.out...)
}

// GenTimers draws a timer scenario.
func GenTimers(prop string, seed uint64, thorough bool) *Scenario {
	g := newG(seed)
	sc := &Scenario{Family: "timers", Prop: prop, Seed: g.Uint64(), FaultFree: true}
	ts := &TimerScen{}
	nt := g.rng(1, 3)
	ntask := g.rng(2, 4)
	if thorough {
		nt, ntask = g.rng(1, 5), g.rng(2, 6)
	}
	end := 0
	for i := 0; i < nt; i++ {
		sp := TimerSpec{Interval: g.p(0.4), PeriodMs: g.pick(1, 2, 5, 10, 20, 50)}
		long := g.p(0.15)
		if long {
			// a timer that is armed and cancelled / refreshed long before it is due (the heartbeat timers of a
			// session live like that): nothing of it may stay behind until the due instant
			sp.PeriodMs = g.pick(5000, 60000)
		}
		if g.p(0.3) {
			base := sp.PeriodMs
			if base > 50 {
				base = 50
			}
			sp.CbSleepMs = g.pick(1, base/2+1, base, 2*base+1)
		}
		if g.p(0.25) {
			sp.SelfCancelAt = g.pick(1, 1, 2, 3)
		}
		ts.Timers = append(ts.Timers, sp)
		t0 := g.pick(0, 0, 1, 5, 10)
		creator := fmt.Sprintf("a%d", g.IntN(ntask))
		ts.Ops = append(ts.Ops, TimerOp{Task: creator, AtMs: t0, Op: "create", Timer: i})
		nops := g.rng(0, 4)
		last := t0
		for k := 0; k < nops; k++ {
			// instants on the grid around the due instants
			mult := g.rng(1, 4)
			at := last + mult*sp.PeriodMs + g.pick(-1, 0, 0, 0, 1)
			if g.p(0.3) {
				at = last + g.rng(0, sp.PeriodMs)
			}
			if long {
				at = last + g.pick(0, 0, 1, 3, 20)
			}
			if at < t0 {
				at = t0
			}
			op := g.picks("refresh", "stop", "clear", "refresh", "stop")
			task := fmt.Sprintf("a%d", g.IntN(ntask))
			ts.Ops = append(ts.Ops, TimerOp{Task: task, AtMs: at, Op: op, Timer: i})
			if g.p(0.25) { // a concurrent second call at the same instant from another task
				ts.Ops = append(ts.Ops, TimerOp{Task: fmt.Sprintf("a%d", g.IntN(ntask)), AtMs: at, Op: g.picks("stop", "clear", "refresh"), Timer: i})
			}
			if g.p(0.5) {
				last = at
			}
			if at > end {
				end = at
			}
		}
		if !long && t0+5*sp.PeriodMs > end {
			end = t0 + 5*sp.PeriodMs
		}
	}
	ts.EndMs = end + 20
	sc.Timers = ts
	sc.HorizonMs = ts.EndMs
	sc.Policy, sc.HotFuncs = genPolicy(g, []string{"Timer.Refresh", "Timer.Stop", "SetTimeout", "SetInterval", "ClearTimeout", "ClearInterval"}, 600)
	sc.MaxSteps = 20000
	return sc
}

func shrinkTimers(sc *Scenario) []shrinkCand {
	if sc.Timers == nil {
		return nil
	}
	var out []shrinkCand
	for i := range sc.Timers.Ops {
		if sc.Timers.Ops[i].Op == "create" {
			continue
		}
		c := cloneScenario(sc)
		c.Timers.Ops = append(c.Timers.Ops[:i], c.Timers.Ops[i+1:]...)
		out = append(out, shrinkCand{c, "drop-timer-op"})
	}
	if len(sc.Timers.Timers) > 1 {
		for t := range sc.Timers.Timers {
			c := cloneScenario(sc)
			var ops []TimerOp
			for _, o := range c.Timers.Ops {
				if o.Timer != t {
					ops = append(ops, o)
				}
			}
			c.Timers.Ops = ops
			out = append(out, shrinkCand{c, "drop-timer"})
		}
	}
	return out
}
