package sim

import (
	"encoding/json"
	"testing"
	"time"

	"github.com/zishang520/engine.io/v2/simrt"
)

func cloneScenario(sc *Scenario) *Scenario {
	b, _ := json.Marshal(sc)
	var c Scenario
	json.Unmarshal(b, &c)
	return &c
}

// minimiser shrinks (scenario, tape) while the same violation signature persists.
type minimiser struct {
	t        *testing.T
	prop     string
	sig      string
	sc       *Scenario
	tape     []simrt.Turn
	sel      []int
	runs     int
	deadline time.Time
	log      []string
}

// try runs cand leniently along tape; on reproduction returns the result (with its actual tape).
func (m *minimiser) try(sc *Scenario, tape []simrt.Turn, sel []int) *Result {
	if time.Now().After(m.deadline) {
		return nil
	}
	m.runs++
	res := RunScenario(m.t, sc, &simrt.Replay{Tape: tape, Sel: sel, Strict: false}, true)
	if hasSig(res, m.prop, m.sig) != nil {
		return res
	}
	return nil
}

func (m *minimiser) accept(sc *Scenario, res *Result, what string) {
	m.sc, m.tape, m.sel = sc, res.Tape, res.Selects
	m.log = append(m.log, what)
}

func preemptions(t []simrt.Turn) int {
	n := 0
	for _, x := range t {
		if x.P {
			n++
		}
	}
	return n
}

func (m *minimiser) run() {
	// 1. scenario structure: drop whole actors / ops, one at a time, to a fixpoint
	for changed := true; changed && time.Now().Before(m.deadline); {
		changed = false
		for _, cand := range scenarioShrinks(m.sc) {
			if res := m.try(cand.sc, m.tape, m.sel); res != nil {
				m.accept(cand.sc, res, cand.what)
				changed = true
				break
			}
		}
	}
	// 2. schedule: cut the tail (the default policy continues), then remove pre-emptions
	lo, hi := 0, len(m.tape)
	for lo < hi && time.Now().Before(m.deadline) {
		mid := (lo + hi) / 2
		if res := m.try(m.sc, m.tape[:mid], m.sel); res != nil && len(res.Tape) > 0 {
			hi = mid
			if preemptions(res.Tape) <= preemptions(m.tape) {
				m.accept(m.sc, res, "tape-cut")
				if len(m.tape) < hi {
					hi = len(m.tape)
				}
			}
		} else {
			lo = mid + 1
		}
	}
	for pass := 0; pass < 3 && time.Now().Before(m.deadline); pass++ {
		progress := false
		for i := len(m.tape) - 1; i >= 0 && time.Now().Before(m.deadline); i-- {
			if i >= len(m.tape) || !m.tape[i].P {
				continue
			}
			cand := append([]simrt.Turn(nil), m.tape...)
			cand[i].P = false
			if res := m.try(m.sc, cand, m.sel); res != nil && preemptions(res.Tape) < preemptions(m.tape) {
				m.accept(m.sc, res, "drop-preemption")
				progress = true
			}
		}
		if !progress {
			break
		}
	}
	// 3. scenario again (a simpler schedule often allows more to go)
	for changed := true; changed && time.Now().Before(m.deadline); {
		changed = false
		for _, cand := range scenarioShrinks(m.sc) {
			if res := m.try(cand.sc, m.tape, m.sel); res != nil {
				m.accept(cand.sc, res, cand.what)
				changed = true
				break
			}
		}
	}
}

type shrinkCand struct {
	sc   *Scenario
	what string
}

// scenarioShrinks proposes simpler scenarios (generic, family-independent
// fields first; families add their own through familyShrinks).
func scenarioShrinks(sc *Scenario) []shrinkCand {
	var out []shrinkCand
	add := func(what string, f func(c *Scenario) bool) {
		c := cloneScenario(sc)
		if f(c) {
			out = append(out, shrinkCand{c, what})
		}
	}
	for i := range sc.Clients {
		i := i
		if len(sc.Clients) > 1 {
			add("drop-client", func(c *Scenario) bool {
				name := c.Clients[i].Name
				c.Clients = append(c.Clients[:i], c.Clients[i+1:]...)
				var app []AppOp
				for _, o := range c.App {
					if o.Sess != name {
						app = append(app, o)
					}
				}
				c.App = app
				return true
			})
		}
	}
	// drop app ops: halves first, then singles
	if n := len(sc.App); n > 0 {
		if n > 3 {
			add("drop-app-half", func(c *Scenario) bool { c.App = c.App[:n/2]; return true })
			add("drop-app-half", func(c *Scenario) bool { c.App = c.App[n/2:]; return true })
		}
		for i := 0; i < n; i++ {
			i := i
			add("drop-app-op", func(c *Scenario) bool { c.App = append(c.App[:i], c.App[i+1:]...); return true })
		}
	}
	for ci := range sc.Clients {
		ci := ci
		cl := &sc.Clients[ci]
		if n := len(cl.Sends); n > 0 {
			add("drop-client-sends", func(c *Scenario) bool { c.Clients[ci].Sends = nil; return true })
			for i := 0; i < n && n > 1; i++ {
				i := i
				add("drop-client-send", func(c *Scenario) bool {
					s := c.Clients[ci].Sends
					c.Clients[ci].Sends = append(s[:i], s[i+1:]...)
					return true
				})
			}
		}
		for i := range cl.Faults {
			i := i
			add("drop-fault", func(c *Scenario) bool {
				s := c.Clients[ci].Faults
				c.Clients[ci].Faults = append(s[:i], s[i+1:]...)
				return true
			})
		}
		for i := range cl.Raw {
			i := i
			if len(cl.Raw) > 1 {
				add("drop-raw-op", func(c *Scenario) bool {
					s := c.Clients[ci].Raw
					c.Clients[ci].Raw = append(s[:i], s[i+1:]...)
					return true
				})
			}
		}
		for i := range cl.Cand {
			i := i
			if len(cl.Cand) > 1 {
				add("drop-cand-op", func(c *Scenario) bool {
					s := c.Clients[ci].Cand
					c.Clients[ci].Cand = append(s[:i], s[i+1:]...)
					return true
				})
			}
		}
		if cl.Upgrade != "" {
			add("no-upgrade", func(c *Scenario) bool { c.Clients[ci].Upgrade = ""; return true })
		}
		if cl.StopAtMs > 0 {
			add("no-silence", func(c *Scenario) bool { c.Clients[ci].StopAtMs = 0; return true })
		}
		if cl.CloseAtMs > 0 {
			add("no-client-close", func(c *Scenario) bool { c.Clients[ci].CloseAtMs = 0; return true })
		}
		if cl.LatencyMs > 0 {
			add("no-latency", func(c *Scenario) bool { c.Clients[ci].LatencyMs = 0; return true })
		}
		if len(cl.Frag) > 0 {
			add("no-frag", func(c *Scenario) bool { c.Clients[ci].Frag = nil; return true })
		}
		if cl.PollGapMs > 0 {
			add("no-pollgap", func(c *Scenario) bool { c.Clients[ci].PollGapMs = 0; return true })
		}
		if len(cl.PongDelayMs) > 0 {
			add("no-pongdelay", func(c *Scenario) bool { c.Clients[ci].PongDelayMs = nil; return true })
		}
		if cl.JSONP {
			add("no-jsonp", func(c *Scenario) bool { c.Clients[ci].JSONP = false; c.Clients[ci].J = ""; return true })
		}
		if cl.B64 && !cl.JSONP {
			add("no-b64", func(c *Scenario) bool { c.Clients[ci].B64 = false; return true })
		}
		if cl.AcceptEnc != "" {
			add("no-accept-encoding", func(c *Scenario) bool { c.Clients[ci].AcceptEnc = ""; return true })
		}
		if cl.Origin != "" {
			add("no-origin", func(c *Scenario) bool { c.Clients[ci].Origin = ""; return true })
		}
		if cl.AbortHS {
			add("no-handshake-abort", func(c *Scenario) bool { c.Clients[ci].AbortHS = false; return true })
		}
		if cl.StartMs > 0 {
			add("start-0", func(c *Scenario) bool { c.Clients[ci].StartMs = 0; return true })
		}
	}
	for i := range sc.Reent {
		i := i
		add("drop-reent", func(c *Scenario) bool { c.Reent = append(c.Reent[:i], c.Reent[i+1:]...); return true })
	}
	// smaller payloads
	for i := range sc.App {
		i := i
		if sc.App[i].Size > 8 {
			add("small-payload", func(c *Scenario) bool { c.App[i].Size = 8; return true })
		}
		if sc.App[i].Opt != "" {
			add("plain-options", func(c *Scenario) bool { c.App[i].Opt = ""; return true })
		}
		if sc.App[i].CB {
			add("no-callback", func(c *Scenario) bool { c.App[i].CB = false; return true })
		}
		if sc.App[i].Binary {
			add("text-payload", func(c *Scenario) bool { c.App[i].Binary = false; return true })
		}
	}
	o := sc.Opts
	if o.Cookie != nil {
		add("no-cookie", func(c *Scenario) bool { c.Opts.Cookie = nil; return true })
	}
	if o.Cors != nil {
		add("no-cors", func(c *Scenario) bool { c.Opts.Cors = nil; return true })
	}
	if o.InitialPacket != "" {
		add("no-initial-packet", func(c *Scenario) bool { c.Opts.InitialPacket = ""; return true })
	}
	if o.PMD {
		add("no-pmd", func(c *Scenario) bool { c.Opts.PMD = false; return true })
	}
	if o.CompThreshold >= 0 || o.NoCompression {
		add("default-compression", func(c *Scenario) bool { c.Opts.CompThreshold = -1; c.Opts.NoCompression = false; return true })
	}
	if o.MaxBuf != 0 {
		add("default-maxbuf", func(c *Scenario) bool { c.Opts.MaxBuf = 0; return true })
	}
	if sc.Attach != nil {
		add("no-http-server", func(c *Scenario) bool { c.Attach = nil; return true })
	}
	if sc.Policy.Kind != "fifo" || sc.Policy.K != 0 {
		// irrelevant under replay, but makes the file say so
	}
	out = append(out, familyShrinks(sc)...)
	return out
}

// familyShrinks is extended by family files.
var familyShrinkFns []func(sc *Scenario) []shrinkCand

func familyShrinks(sc *Scenario) []shrinkCand {
	var out []shrinkCand
	for _, f := range familyShrinkFns {
		out = append(out, f(sc)...)
	}
	return out
}
