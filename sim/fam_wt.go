package sim

import (
	"bytes"
	"errors"
	"fmt"
	"io"
	"net/http"
	"strings"
	"sync"
	"time"

	"github.com/quic-go/quic-go"
	"github.com/zishang520/engine.io/v2/simrt"
	webtrans "github.com/zishang520/engine.io/v2/webtransport"
	"github.com/zishang520/webtransport-go"
	"verif/sim/ref"
)

// WTScen exercises the repository's WebTransport framing layer
// (webtransport.Conn) directly: a writer task and a reader task on two Conn
// values joined by an in-memory stream that fragments reads and can fail.
type WTScen struct {
	Mode       string    `json:"mode"` // rt (write paths -> peer reader) | dec (reference stream -> reader) | tot (arbitrary stream -> reader)
	WriterSrv  bool      `json:"writerServer"`
	ReaderSrv  bool      `json:"readerServer"`
	ReadBuf    int       `json:"readBuf"`
	WriteBuf   int       `json:"writeBuf"`
	Pool       bool      `json:"pool,omitempty"`
	Msgs       []WTMsgOp `json:"msgs,omitempty"`
	Frag       []int     `json:"frag,omitempty"`
	LatencyMs  int       `json:"lat,omitempty"`
	Stream     []byte    `json:"stream,omitempty"` // dec/tot: the bytes the peer sends
	ReadLimit  int64     `json:"readLimit,omitempty"`
	FailAt     int64     `json:"failAt"` // <0: never; else the stream reports an error once that many bytes were consumed
	FailKind   string    `json:"failKind,omitempty"`
	FailOnce   bool      `json:"failOnce,omitempty"`  // the stream error is transient (a deadline): the stream itself goes on afterwards
	StaleRead  bool      `json:"staleRead,omitempty"` // after moving on to the next message the application reads the previous message's reader again
	EOF        bool      `json:"eof"`                 // the stream ends after its bytes (else the reader is stopped by the harness)
	Consume    []int     `json:"consume,omitempty"`   // per message: -1 read all, k>=0 read at most k bytes then move on
	ReadChunk  int       `json:"readChunk,omitempty"`
	ExtraReads int       `json:"extraReads,omitempty"` // NextReader calls after the first error (sticky-error clause)
	Expect     []WTExp   `json:"expect,omitempty"`     // dec: the messages the stream encodes
	// the stream hands out its last bytes together with io.EOF
	EOFWithData bool `json:"eofWithData,omitempty"`
	// the reading application uses the ReadMessage helper instead of NextReader + Read
	UseReadMessage bool `json:"readMessage,omitempty"`
	// rt: the writer's stream fails: the write that would take the total to WFailAt bytes accepts the bytes before
	// that and returns an error (0: never); transient with WFailOnce (a deadline: the stream itself goes on)
	WFailAt   int64  `json:"wfailAt,omitempty"`
	WFailKind string `json:"wfailKind,omitempty"`
	WFailOnce bool   `json:"wfailOnce,omitempty"`
	// rt: a second connection, written by its own task, that shares the buffer pool with the first
	Peer []WTMsgOp `json:"peer,omitempty"`
	// rt: messages with Path "SharedPrepared" are one PreparedMessage object (SharedLen bytes) used by both
	// connections' writer tasks (a broadcast)
	SharedLen int `json:"sharedLen,omitempty"`
}

type WTMsgOp struct {
	Binary bool   `json:"bin,omitempty"`
	Len    int    `json:"len"`
	Path   string `json:"path"` // WriteMessage | NextWriter | ReadFrom | Prepared | WriteString
	Chunks []int  `json:"chunks,omitempty"`
	// ReadFrom only: the source returns its last bytes together with io.EOF (as io.Reader allows)
	EOFWithData bool `json:"eofWithData,omitempty"`
}

type WTExp struct {
	Binary bool `json:"bin,omitempty"`
	Len    int  `json:"len"`
	Seed   int  `json:"seed"`
}

// simStream is the in-memory webtransport.Stream.
type simStream struct {
	in, out *half
	capture *bytes.Buffer
	mu      sync.Mutex
	nWrites int
}

func (s *simStream) Read(b []byte) (int, error) { return s.in.read(b) }
func (s *simStream) Write(b []byte) (int, error) {
	n, err := s.out.write(b)
	s.mu.Lock()
	s.nWrites++
	if s.capture != nil {
		s.capture.Write(b[:n]) // what the stream accepted
	}
	s.mu.Unlock()
	if simrt.IsTask() {
		simrt.Yield(-5)
	}
	return n, err
}
func (s *simStream) Close() error            { s.out.closeWrite(); return nil }
func (s *simStream) StreamID() quic.StreamID { return 4 }
func (s *simStream) CancelRead(webtransport.StreamErrorCode) {
	s.in.fail(errors.New("read cancelled"), nil)
}
func (s *simStream) CancelWrite(webtransport.StreamErrorCode) {
	s.out.fail(nil, errors.New("write cancelled"))
}
func (s *simStream) SetDeadline(time.Time) error      { return nil }
func (s *simStream) SetReadDeadline(time.Time) error  { return nil }
func (s *simStream) SetWriteDeadline(time.Time) error { return nil }

type simPool struct {
	mu   sync.Mutex
	v    []interface{}
	gets int
}

func (p *simPool) Get() interface{} {
	p.mu.Lock()
	defer p.mu.Unlock()
	p.gets++
	if n := len(p.v); n > 0 {
		x := p.v[n-1]
		p.v = p.v[:n-1]
		return x
	}
	return nil
}
func (p *simPool) Put(x interface{}) { p.mu.Lock(); p.v = append(p.v, x); p.mu.Unlock() }

type wtGot struct {
	Binary   bool
	Data     []byte
	Err      string // error of the message reader (if any)
	Declared int64  // -1 unknown
	Partial  bool   // deliberately not read to the end
}

type wtFam struct {
	sc         *Scenario
	wire       bytes.Buffer
	got        []wtGot
	nextErr    []string // errors of NextReader calls, in order
	written    []ref.WTMsg
	wErr       []string
	sess       *webtransport.Session
	sessClosed bool
	readerDone bool
	writerDone bool
	panicMsg   string
	staleN     int
	wire2      bytes.Buffer // the second connection's wire (shared pool)
	written2   []ref.WTMsg
	wErr2      []string
	writer2Run bool
	wOK        []bool // per message of the first connection: the write call returned nil
	sharedPM   *webtrans.PreparedMessage
	sharedData []byte
	sharedBin  bool
}

func init() {
	families["wtframe"] = func(sc *Scenario) family { return &wtFam{sc: sc} }
	for _, p := range []string{"C13", "C14", "C15"} {
		generators[p] = []genFn{GenWT}
	}
	familyShrinkFns = append(familyShrinkFns, shrinkWT)
}

func (f *wtFam) horizon() time.Duration { return 60 * time.Second }
func (f *wtFam) quiescent(w *World)     {}

func wtPayload(seed, n int) []byte {
	b := make([]byte, n)
	x := uint32(seed*2654435761 + 12345)
	for i := range b {
		x = x*1664525 + 1013904223
		b[i] = "abcdefghijklmnopqrstuvwxyz0123456789ABCDEFGHIJKLMNOPQRSTUVWXYZ-_"[x>>26]
	}
	return b
}

// realSession builds a genuine *webtransport.Session over the http3/quic fakes
// (needed because Conn.CloseWithError goes to the session).
func (f *wtFam) realSession(w *World) *webtransport.Session {
	st := w.wtState()
	c := &Client{w: w, sp: &ClientSpec{Name: "peer"}, name: "peer"}
	cn := st.newConn(c)
	req, resp := w.newRequest("peer", ReqSpec{Method: "CONNECT", Proto: "webtransport", Path: "/wt", Hdr: map[string]string{"Sec-Webtransport-Http3-Draft02": "1"}, H3: cn})
	req.ProtoMajor, req.ProtoMinor = 3, 0
	rw := w.h3Writer(&respWriter{r: resp, h: http.Header{}}, resp)
	sess, err := st.wts.Upgrade(rw, req.WithContext(cn.req.ctx))
	if err != nil {
		panic("sim: cannot create webtransport session: " + err.Error())
	}
	return sess
}

func (f *wtFam) setup(w *World) {
	sc := f.sc.WT
	f.sess = f.realSession(w)
	a2b, b2a := newHalf(), newHalf() // writer->reader, reader->writer
	a2b.frag = sc.Frag
	a2b.onFault = w.fault
	if sc.FailAt >= 0 {
		a2b.failAt = sc.FailAt
		switch sc.FailKind {
		case "timeout":
			a2b.failErr = errTimeout
		case "eof":
			a2b.failErr = io.EOF
		default:
			a2b.failErr = errReset
		}
		a2b.failOnce = sc.FailOnce
	}
	a2b.eofWithData = sc.EOFWithData
	if sc.WFailAt > 0 {
		a2b.wfailAt, a2b.wfailOnce = sc.WFailAt, sc.WFailOnce
		a2b.wfailErr = errReset
		if sc.WFailKind == "timeout" {
			a2b.wfailErr = errTimeout
		}
	}
	wstream := &simStream{in: b2a, out: a2b, capture: &f.wire}
	rstream := &simStream{in: a2b, out: b2a}
	var pool webtrans.BufferPool
	if sc.Pool {
		pool = &simPool{}
	}
	for _, m := range append(append([]WTMsgOp(nil), sc.Msgs...), sc.Peer...) {
		if m.Path == "SharedPrepared" && f.sharedPM == nil {
			mt := webtrans.TextMessage
			if m.Binary {
				mt = webtrans.BinaryMessage
			}
			f.sharedBin = m.Binary
			f.sharedData = wtPayload(5000, sc.SharedLen)
			pm, err := webtrans.NewPreparedMessage(mt, f.sharedData)
			if err != nil {
				panic("sim: NewPreparedMessage: " + err.Error())
			}
			f.sharedPM = pm
		}
	}
	wconn := webtrans.NewConn(f.sess, wstream, sc.WriterSrv, sc.ReadBuf, sc.WriteBuf, pool, nil, nil)
	rconn := webtrans.NewConn(f.sess, rstream, sc.ReaderSrv, sc.ReadBuf, sc.WriteBuf, nil, nil, nil)
	if sc.ReadLimit > 0 {
		rconn.SetReadLimit(sc.ReadLimit)
	}
	simrt.GoActor("w-writer", func() {
		defer func() { f.writerDone = true }()
		if sc.Mode == "rt" {
			for i, m := range sc.Msgs {
				if sc.LatencyMs > 0 {
					simrt.Sleep(time.Duration(sc.LatencyMs) * time.Millisecond)
				}
				data := wtPayload(i+1, m.Len)
				if m.Path == "SharedPrepared" {
					data, m.Binary = f.sharedData, f.sharedBin
				}
				f.written = append(f.written, ref.WTMsg{Binary: m.Binary, Data: data})
				err := f.writeOne(wconn, m, data)
				f.wOK = append(f.wOK, err == nil)
				if err != nil {
					f.wErr = append(f.wErr, fmt.Sprintf("message %d (%s, %d bytes): %v", i, m.Path, m.Len, err))
				}
			}
		} else {
			// the peer's bytes, as they are
			chunk := 0
			for off := 0; off < len(sc.Stream); {
				n := len(sc.Stream) - off
				if len(sc.Frag) > 0 {
					if c := sc.Frag[chunk%len(sc.Frag)] * 7; c > 0 && c < n {
						n = c
					}
					chunk++
				}
				a2b.write(sc.Stream[off : off+n])
				off += n
				simrt.Yield(-5)
			}
		}
		if sc.EOF {
			a2b.closeWrite()
		}
	})
	if sc.Mode == "rt" && len(sc.Peer) > 0 {
		// a second connection on the same buffer pool, with a stream and a writer task of its own: the two
		// writers interleave statement by statement inside the framing code
		f.writer2Run = true
		x2y := newHalf()
		w2 := &simStream{in: newHalf(), out: x2y, capture: &f.wire2}
		conn2 := webtrans.NewConn(f.sess, w2, sc.WriterSrv, sc.ReadBuf, sc.WriteBuf, pool, nil, nil)
		simrt.GoActor("w-writer2", func() {
			defer func() { f.writer2Run = false }()
			for i, m := range sc.Peer {
				data := wtPayload(1000+i, m.Len)
				if m.Path == "SharedPrepared" {
					data, m.Binary = f.sharedData, f.sharedBin
				}
				f.written2 = append(f.written2, ref.WTMsg{Binary: m.Binary, Data: data})
				if err := f.writeOne(conn2, m, data); err != nil {
					f.wErr2 = append(f.wErr2, fmt.Sprintf("peer message %d (%s, %d bytes): %v", i, m.Path, m.Len, err))
				}
			}
		})
	}
	simrt.GoActor("r-reader", func() {
		defer func() {
			f.readerDone = true
			if r := recover(); r != nil {
				s := fmt.Sprint(r)
				if strings.HasPrefix(s, "simrt: abort") {
					panic(r)
				}
				f.panicMsg = s
			}
		}()
		f.readAll(w, rconn, sc)
	})
	simrt.GoActor("z-end", func() {
		simrt.Block(func() bool { return f.readerDone && f.writerDone && !f.writer2Run })
		select {
		case <-f.sess.Context().Done():
			f.sessClosed = true
		default:
		}
		w.closeWT()
		w.S.StopFlag.Store(true)
	})
	if !sc.EOF {
		simrt.GoActor("z-watch", func() {
			// a reader that waits for bytes that never come is stopped by the harness
			simrt.Block(func() bool { return f.writerDone })
			simrt.Sleep(30 * time.Second)
			a2b.closeWrite()
		})
	}
}

func (f *wtFam) writeOne(c *webtrans.Conn, m WTMsgOp, data []byte) error {
	mt := webtrans.TextMessage
	if m.Binary {
		mt = webtrans.BinaryMessage
	}
	switch m.Path {
	case "WriteMessage":
		return c.WriteMessage(mt, data)
	case "SharedPrepared":
		return c.WritePreparedMessage(f.sharedPM)
	case "Prepared":
		pm, err := webtrans.NewPreparedMessage(mt, data)
		if err != nil {
			return err
		}
		return c.WritePreparedMessage(pm)
	case "ReadFrom":
		wr, err := c.NextWriter(mt)
		if err != nil {
			return err
		}
		rf, ok := wr.(io.ReaderFrom)
		if !ok {
			return fmt.Errorf("writer is not an io.ReaderFrom")
		}
		if n, err := rf.ReadFrom(&chunkReader{data: data, chunks: m.Chunks, eofWithData: m.EOFWithData}); err != nil {
			return err
		} else if n != int64(len(data)) {
			return fmt.Errorf("ReadFrom reported %d bytes, the source supplied %d", n, len(data))
		}
		return wr.Close()
	default: // NextWriter / WriteString fed with the chunking
		wr, err := c.NextWriter(mt)
		if err != nil {
			return err
		}
		off, k := 0, 0
		for off < len(data) {
			n := len(data) - off
			if len(m.Chunks) > 0 {
				if c := m.Chunks[k%len(m.Chunks)]; c > 0 && c < n {
					n = c
				}
				k++
			}
			if m.Path == "WriteString" {
				if sw, ok := wr.(io.StringWriter); ok {
					if _, err := sw.WriteString(string(data[off : off+n])); err != nil {
						return err
					}
					off += n
					continue
				}
			}
			if _, err := wr.Write(data[off : off+n]); err != nil {
				return err
			}
			off += n
		}
		return wr.Close()
	}
}

type chunkReader struct {
	data        []byte
	chunks      []int
	k           int
	eofWithData bool
}

func (r *chunkReader) Read(b []byte) (int, error) {
	if len(r.data) == 0 {
		return 0, io.EOF
	}
	n := len(b)
	if len(r.chunks) > 0 {
		if c := r.chunks[r.k%len(r.chunks)]; c > 0 && c < n {
			n = c
		}
		r.k++
	}
	if n > len(r.data) {
		n = len(r.data)
	}
	copy(b, r.data[:n])
	r.data = r.data[n:]
	if r.eofWithData && len(r.data) == 0 {
		return n, io.EOF
	}
	return n, nil
}

func (f *wtFam) readAll(w *World, c *webtrans.Conn, sc *WTScen) {
	chunk := sc.ReadChunk
	if chunk <= 0 {
		chunk = 512
	}
	extra := -1
	var prev io.Reader
	for i := 0; ; i++ {
		var mt int
		var r io.Reader
		var err error
		var whole []byte
		var wholeErr error
		if sc.UseReadMessage {
			// the one-call helper: a nil slice means the failure was NextReader's
			mt, whole, wholeErr = c.ReadMessage()
			if whole == nil && wholeErr != nil {
				err = wholeErr
			}
		} else {
			mt, r, err = c.NextReader()
		}
		if err == nil && prev != nil && sc.StaleRead && !sc.UseReadMessage {
			// a reader of an earlier message must not hand out anything of the current one
			sb := make([]byte, 16)
			if n, _ := prev.Read(sb); n > 0 {
				f.staleN += n
			}
		}
		prev = r
		if err != nil {
			f.nextErr = append(f.nextErr, err.Error())
			w.rec("", "next-err", err.Error(), int64(i))
			if extra < 0 {
				extra = sc.ExtraReads
			}
			if extra == 0 {
				return
			}
			extra--
			continue
		}
		if extra >= 0 {
			f.nextErr = append(f.nextErr, "<nil>")
			w.rec("", "next-ok-after-error", "", int64(i))
		}
		g := wtGot{Binary: mt == webtrans.BinaryMessage, Declared: -1}
		if sc.UseReadMessage {
			g.Data = whole
			if wholeErr != nil {
				g.Err = wholeErr.Error()
			}
			f.got = append(f.got, g)
			w.recx(Ev{Kind: "wt-msg", N: int64(len(g.Data)), S: fmt.Sprintf("binary=%v err=%q (ReadMessage)", g.Binary, g.Err)})
			if len(f.got) > 100000 {
				return
			}
			continue
		}
		want := -1
		if len(sc.Consume) > 0 {
			want = sc.Consume[i%len(sc.Consume)]
		}
		buf := make([]byte, chunk)
		for want < 0 || len(g.Data) < want {
			lim := len(buf)
			if want >= 0 && want-len(g.Data) < lim {
				lim = want - len(g.Data)
			}
			n, err := r.Read(buf[:lim])
			g.Data = append(g.Data, buf[:n]...)
			if err != nil {
				if err != io.EOF {
					g.Err = err.Error()
				}
				break
			}
			if len(g.Data) > 1<<26 {
				g.Err = "harness: runaway message"
				break
			}
		}
		if want >= 0 && len(g.Data) >= want && g.Err == "" {
			// did the message end exactly here?
			g.Partial = true
		}
		f.got = append(f.got, g)
		w.recx(Ev{Kind: "wt-msg", N: int64(len(g.Data)), S: fmt.Sprintf("binary=%v err=%q partial=%v", g.Binary, g.Err, g.Partial)})
		if len(f.got) > 100000 {
			return
		}
	}
}

// streamModel decodes the byte stream the way the format defines it and
// applies the reader's contract (limit, truncation, fault).
type wtModelMsg struct {
	bin       bool
	declared  uint64
	avail     []byte // payload bytes the stream supplied
	complete  bool
	overLimit bool
	badLen    bool
}

func wtModel(stream []byte, limit int64) (msgs []wtModelMsg, trailing int) {
	off := 0
	for off < len(stream) {
		h := stream[off]
		m := wtModelMsg{bin: h&0x80 != 0}
		l := uint64(h & 0x7f)
		p := off + 1
		switch l {
		case 126:
			if p+2 > len(stream) {
				return msgs, len(stream) - off
			}
			l = uint64(stream[p])<<8 | uint64(stream[p+1])
			p += 2
		case 127:
			if p+8 > len(stream) {
				return msgs, len(stream) - off
			}
			l = 0
			for i := 0; i < 8; i++ {
				l = l<<8 | uint64(stream[p+i])
			}
			p += 8
		}
		m.declared = l
		if l >= 1<<63 {
			m.badLen = true
			msgs = append(msgs, m)
			return msgs, 0
		}
		if limit > 0 && l > uint64(limit) {
			m.overLimit = true
			msgs = append(msgs, m)
			return msgs, 0
		}
		end := uint64(p) + l
		if end > uint64(len(stream)) {
			m.avail = stream[p:]
			msgs = append(msgs, m)
			return msgs, 0
		}
		m.avail = stream[p:end]
		m.complete = true
		msgs = append(msgs, m)
		off = int(end)
	}
	return msgs, 0
}

func (f *wtFam) finish(w *World, res *Result) {
	sc := f.sc.WT
	for _, fl := range res.Fail {
		if fl.Kind == "panic" {
			f.panicMsg = fl.Msg
		}
	}
	l13, l14, l15 := &vlist{prop: "C13"}, &vlist{prop: "C14"}, &vlist{prop: "C15"}
	role := "client-writer"
	if sc.WriterSrv {
		role = "server-writer"
	}
	if f.panicMsg != "" && !strings.Contains(f.panicMsg, "repeated read on failed") {
		l15.add("never-panics", panicSig(simrtFailure(f.panicMsg)), fmt.Sprintf("reading panicked: %s", f.panicMsg))
	}
	if res.Outcome == "steps" || res.Outcome == "yields" {
		// cut off by the exploration's budget in the middle of a message: not judged after the fact (counted)
		res.Viol = append(res.Viol, l15.out...)
		return
	}
	if !f.readerDone && f.panicMsg == "" && res.Outcome != "fail" && res.Outcome != "steps" {
		l15.add("reader-terminates", "", fmt.Sprintf("the reader neither returned an error nor finished (outcome %s, alive %v)", res.Outcome, res.Alive))
	}
	switch sc.Mode {
	case "rt":
		wire := f.wire.Bytes()
		// C14 encoder half: the wire is exactly one minimal frame per message
		var want []byte
		for _, m := range f.written {
			want = ref.AppendWTFrame(want, m)
		}
		if sc.WFailAt == 0 {
			for _, e := range f.wErr {
				l13.add("write-succeeds", role, "write failed on a healthy stream: "+e)
			}
		} else {
			// the writer's stream failed in the middle: whatever the connection still emits, the wire stays a
			// sequence of whole frames followed by at most the beginning of one more (a later message written into
			// the middle of a cut-off frame is no frame of the format), and a write reported as successful is on
			// the wire in full
			if !bytes.HasPrefix(want, wire) {
				l14.add("one-frame-per-message", "bytes-after-a-cut-off-frame", fmt.Sprintf("the stream failed after %d bytes (%s); the wire (%d bytes) is not a prefix of the frames of the %d messages written: bytes were emitted behind a cut-off frame", sc.WFailAt-1, sc.WFailKind, len(wire), len(f.written)))
			}
			end := 0
			for i, m := range f.written {
				end += len(ref.AppendWTFrame(nil, m))
				if i < len(f.wOK) && f.wOK[i] && len(wire) < end {
					l14.add("one-frame-per-message", "reported-written-but-not-on-the-wire", fmt.Sprintf("message %d (%s) was reported as written but the wire holds only %d of the %d bytes up to the end of its frame", i, sc.Msgs[i].Path, len(wire), end))
					break
				}
			}
		}
		// the second connection (shared buffer pool): its wire is its own messages, one frame each
		if len(sc.Peer) > 0 && len(f.wErr2) == 0 {
			var want2 []byte
			for _, m := range f.written2 {
				want2 = ref.AppendWTFrame(want2, m)
			}
			if !bytes.Equal(f.wire2.Bytes(), want2) {
				l14.add("one-frame-per-message", "shared-buffer-pool", fmt.Sprintf("two connections sharing one buffer pool: the second connection's wire (%d bytes) differs from the frames of its %d messages (%d bytes)", f.wire2.Len(), len(f.written2), len(want2)))
				l13.add("round-trip", "shared-buffer-pool", fmt.Sprintf("two connections sharing one buffer pool: what the second connection put on the wire does not decode to its %d messages", len(f.written2)))
			}
		}
		for _, e := range f.wErr2 {
			l13.add("write-succeeds", role+"/shared-buffer-pool", "write failed on a healthy stream: "+e)
		}
		if len(f.wErr) == 0 && !bytes.Equal(wire, want) && len(sc.Peer) > 0 {
			l14.add("one-frame-per-message", "shared-buffer-pool", fmt.Sprintf("two connections sharing one buffer pool: the first connection's wire (%d bytes) differs from the frames of its %d messages (%d bytes)", len(wire), len(f.written), len(want)))
		} else if len(f.wErr) == 0 && !bytes.Equal(wire, want) {
			// locate the first message whose frame differs
			dec, _, _ := ref.DecodeWTStream(wire)
			idx, path, ln := -1, "", 0
			for i := range f.written {
				if i >= len(dec) || dec[i].Binary != f.written[i].Binary || !bytes.Equal(dec[i].Data, f.written[i].Data) {
					idx, path, ln = i, sc.Msgs[i].Path, sc.Msgs[i].Len
					break
				}
			}
			cls := "frame-differs"
			if len(dec) > len(f.written) {
				cls = "several-frames-per-message"
			} else if len(dec) < len(f.written) {
				cls = "frames-missing"
			}
			if idx < 0 && len(dec) == len(f.written) {
				cls = "non-minimal-or-extra-bytes"
			}
			if idx < 0 {
				idx = len(f.written) - 1
				path, ln = sc.Msgs[idx].Path, sc.Msgs[idx].Len
			}
			big := sc.sizeClass(idx)
			l14.add("one-frame-per-message", cls+"/"+big, fmt.Sprintf("wire bytes differ from one Engine.IO frame per message: %d messages written, the wire decodes to %d frames; first difference at message %d (%s, %d bytes, write buffer %d); wire %d bytes, expected %d", len(f.written), len(dec), idx, path, ln, sc.effWriteBuf(), len(wire), len(want)))
		}
		// C13 when the writer's stream failed: whatever the peer gets to read as a complete message is, in order, one of
		// the messages written - never something that was not written as one message
		if sc.WFailAt > 0 {
			for i, g := range f.got {
				if g.Err != "" {
					break
				}
				if i >= len(f.written) || g.Binary != f.written[i].Binary || !bytes.Equal(g.Data, f.written[i].Data) {
					l13.add("round-trip", "after-write-fault", fmt.Sprintf("the writer's stream failed after %d bytes; the peer then read message %d (binary=%v, %d bytes) which was never written as one message", sc.WFailAt-1, i, g.Binary, len(g.Data)))
					break
				}
			}
		}
		// C13: the peer reads exactly the written messages
		if len(f.wErr) == 0 {
			n := len(f.got)
			bad := -1
			for i := range f.written {
				if i >= n || f.got[i].Binary != f.written[i].Binary || !bytes.Equal(f.got[i].Data, f.written[i].Data) || f.got[i].Err != "" {
					bad = i
					break
				}
			}
			if bad >= 0 || n != len(f.written) {
				i := bad
				if i < 0 {
					i = len(f.written) - 1
				}
				path, ln := sc.Msgs[i].Path, sc.Msgs[i].Len
				big := sc.sizeClass(i)
				gotDesc := "nothing"
				if bad >= 0 && bad < n {
					gotDesc = fmt.Sprintf("binary=%v len=%d err=%q", f.got[bad].Binary, len(f.got[bad].Data), f.got[bad].Err)
				}
				if len(sc.Peer) > 0 {
					big = "shared-buffer-pool"
				}
				l13.add("round-trip", big, fmt.Sprintf("%d messages written, %d read; message %d (%s, binary=%v, %d bytes, write buffer %d) was read as %s", len(f.written), n, i, path, sc.Msgs[i].Binary, ln, sc.effWriteBuf(), gotDesc))
			}
		}
	case "dec":
		// C14 decoder half: every well-formed stream (non-minimal forms included) yields the same messages
		n := len(f.got)
		bad := -1
		for i, e := range sc.Expect {
			data := wtPayload(e.Seed, e.Len)
			if i >= n || f.got[i].Binary != e.Binary || !bytes.Equal(f.got[i].Data, data) || f.got[i].Err != "" {
				bad = i
				break
			}
		}
		if bad >= 0 || n != len(sc.Expect) {
			l14.add("reader-accepts-conformant-stream", "", fmt.Sprintf("a conformant stream of %d frames was read as %d messages (first difference at %d; NextReader errors %v)", len(sc.Expect), n, bad, f.nextErr))
		}
	case "tot":
		f.totality(l15, sc)
	}
	res.Viol = append(res.Viol, l13.out...)
	res.Viol = append(res.Viol, l14.out...)
	res.Viol = append(res.Viol, l15.out...)
}

func simrtFailure(msg string) simrt.Failure { return simrt.Failure{Msg: msg} }

// sizeClass tells whether some message up to index i exceeds the writer's buffer
// (the streaming writer then has to flush in the middle of a message).
func (sc *WTScen) sizeClass(i int) string {
	for k := 0; k <= i && k < len(sc.Msgs); k++ {
		if sc.Msgs[k].Len >= sc.effWriteBuf() {
			return "message-reaches-write-buffer-size"
		}
	}
	return "within-write-buffer"
}

func (sc *WTScen) effWriteBuf() int {
	if sc.WriteBuf <= 0 {
		return 4096
	}
	return sc.WriteBuf
}

// totality: the C15 oracle over an arbitrary stream.
func (f *wtFam) totality(l *vlist, sc *WTScen) {
	stream := sc.Stream
	faulted := sc.FailAt >= 0 && sc.FailAt <= int64(len(stream))
	if faulted {
		stream = stream[:sc.FailAt]
	}
	model, _ := wtModel(stream, sc.ReadLimit)
	for i, g := range f.got {
		if i >= len(model) {
			l.add("no-invented-message", "", fmt.Sprintf("reader returned message %d (%d bytes) but the stream holds only %d frames", i, len(g.Data), len(model)))
			break
		}
		m := model[i]
		if m.overLimit || m.badLen {
			l.add("read-limit-enforced", "", fmt.Sprintf("frame %d declares %d bytes (limit %d) but a message reader was handed out", i, m.declared, sc.ReadLimit))
			break
		}
		if uint64(len(g.Data)) > m.declared {
			l.add("no-more-than-declared", "", fmt.Sprintf("message %d: %d payload bytes returned, header declared %d", i, len(g.Data), m.declared))
		}
		if len(g.Data) > len(m.avail) {
			l.add("no-more-than-supplied", "", fmt.Sprintf("message %d: %d payload bytes returned, the stream supplied %d", i, len(g.Data), len(m.avail)))
		} else if !bytes.Equal(g.Data, m.avail[:len(g.Data)]) {
			l.add("payload-bytes-intact", "", fmt.Sprintf("message %d: returned bytes differ from the stream's", i))
		}
		if g.Binary != m.bin {
			l.add("kind-from-header", "", fmt.Sprintf("message %d: kind differs from the header bit", i))
		}
		if sc.ReadLimit > 0 && int64(len(g.Data)) > sc.ReadLimit {
			l.add("read-limit-enforced", "delivered", fmt.Sprintf("message %d of %d bytes delivered, read limit %d", i, len(g.Data), sc.ReadLimit))
		}
		if !m.complete && !g.Partial && g.Err == "" && (sc.EOF || faulted) {
			l.add("truncation-is-an-error", "", fmt.Sprintf("message %d: the stream ended after %d of %d declared payload bytes but the reader reported a complete message", i, len(m.avail), m.declared))
		}
		if !m.complete && g.Err != "" && sc.EOF && !faulted && !strings.Contains(strings.ToLower(g.Err), "unexpected eof") {
			l.add("truncation-is-unexpected-eof", "", fmt.Sprintf("message %d: stream ended inside the frame, reader error is %q", i, g.Err))
		}
	}
	if f.staleN > 0 {
		l.add("no-more-than-declared", "stale-reader", fmt.Sprintf("the reader of an earlier message returned %d more bytes after the application had moved on to the next message", f.staleN))
	}
	// limit violation: ErrReadLimit reported and the session closed
	for _, m := range model {
		if m.overLimit {
			found := false
			for _, e := range f.nextErr {
				if strings.Contains(e, "read limit") {
					found = true
				}
			}
			if !found && f.readerDone {
				l.add("read-limit-reported", "", fmt.Sprintf("a frame of %d bytes exceeds the limit %d but no limit error was reported (errors %v)", m.declared, sc.ReadLimit, f.nextErr))
			}
			if found && !f.sessClosed {
				l.add("read-limit-closes-session", "", "limit error reported but the session was not closed")
			}
		}
	}
	// EOF inside a header or payload must surface as an error, and errors are sticky: what a message reader
	// reported is what every later NextReader reports
	if n := len(f.got); n > 0 && f.got[n-1].Err != "" && !strings.HasPrefix(f.got[n-1].Err, "harness:") {
		for _, e := range f.nextErr {
			if e != f.got[n-1].Err {
				l.add("errors-are-sticky", "after-message-read-error", fmt.Sprintf("reading message %d failed with %q but a later NextReader returned %q", n-1, f.got[n-1].Err, e))
				break
			}
		}
	}
	if len(f.nextErr) > 1 {
		for _, e := range f.nextErr[1:] {
			if e != f.nextErr[0] {
				l.add("errors-are-sticky", "", fmt.Sprintf("after NextReader failed with %q a later call returned %q", f.nextErr[0], e))
				break
			}
		}
	}
	if sc.EOF && !faulted && len(f.nextErr) > 0 {
		last := len(model) > 0 && !model[len(model)-1].complete && !model[len(model)-1].overLimit
		_, trailing := wtModel(stream, sc.ReadLimit)
		if (trailing > 0) && !strings.Contains(strings.ToLower(f.nextErr[0]), "unexpected eof") && !strings.Contains(f.nextErr[0], "read limit") {
			l.add("truncation-is-unexpected-eof", "header", fmt.Sprintf("stream ended inside a frame header; NextReader error is %q", f.nextErr[0]))
		}
		_ = last
	}
}

var genRunIndex int64

// GenWT draws a framing scenario for C13 / C14 / C15.
func GenWT(prop string, seed uint64, thorough bool) *Scenario {
	g := newG(seed)
	sc := &Scenario{Family: "wtframe", Prop: prop, Seed: g.Uint64(), FaultFree: prop != "C15", HorizonMs: 1000}
	ws := &WTScen{FailAt: -1, EOF: true}
	ws.WriterSrv = g.p(0.6)
	ws.ReaderSrv = !ws.WriterSrv
	if g.p(0.2) {
		ws.ReaderSrv = ws.WriterSrv
	}
	ws.ReadBuf = g.pick(0, 0, 16, 64, 1024, 4096)
	ws.WriteBuf = g.pick(0, 0, 16, 125, 126, 1024, 4096)
	ws.Pool = g.p(0.3)
	if g.p(0.7) {
		ws.Frag = []int{g.pick(1, 1, 2, 3, 7, 64), g.pick(1, 5, 100, 4096)}
	}
	ws.ReadChunk = g.pick(1, 7, 64, 512, 4096)
	wb := ws.effWriteBuf()
	lens := []int{0, 1, 124, 125, 126, 127, 128, 1000, 65534, 65535, 65536, 65537, wb - 2, wb - 1, wb, wb + 1, wb + 2, 2*wb - 1, 2 * wb, 2*wb + 1, 2*wb + 2, 2*wb + 20, 3 * wb}
	length := func() int {
		if g.p(0.1) && thorough {
			return g.rng(65536, 300000)
		}
		if g.p(0.15) {
			return g.rng(0, 9000)
		}
		n := lens[g.IntN(len(lens))]
		if n < 0 {
			n = 0
		}
		return n
	}
	mode := "rt"
	switch prop {
	case "C14":
		if g.p(0.4) {
			mode = "dec"
		}
	case "C15":
		mode = "tot"
	}
	ws.Mode = mode
	nmsg := g.rng(1, 4)
	if thorough {
		nmsg = g.rng(1, 8)
	}
	switch mode {
	case "rt":
		for i := 0; i < nmsg; i++ {
			m := WTMsgOp{Binary: g.p(0.5), Len: length(), Path: g.picks("WriteMessage", "NextWriter", "ReadFrom", "Prepared", "WriteString", "NextWriter")}
			if g.p(0.7) {
				m.Chunks = []int{g.pick(1, 3, 100, wb-1, wb, wb+1, 2*wb+1, 5000), g.pick(1, 7, 64, 4096)}
				for k := range m.Chunks {
					if m.Chunks[k] < 1 {
						m.Chunks[k] = 1
					}
				}
			}
			if m.Path == "ReadFrom" && g.p(0.4) {
				m.EOFWithData = true
			}
			ws.Msgs = append(ws.Msgs, m)
		}
	case "dec":
		for i := 0; i < nmsg; i++ {
			n := length()
			if n > 70000 {
				n = 70000
			}
			e := WTExp{Binary: g.p(0.5), Len: n, Seed: i + 1}
			ws.Expect = append(ws.Expect, e)
			form := 0
			if n >= 126 {
				form = 1
			}
			if n >= 65536 {
				form = 2
			}
			if g.p(0.5) && form < 2 { // non-minimal length forms
				form = g.rng(form, 2)
			}
			ws.Stream = ref.AppendWTFrameForm(ws.Stream, ref.WTMsg{Binary: e.Binary, Data: wtPayload(e.Seed, e.Len)}, form)
		}
	case "tot":
		genTotal(g, ws, nmsg)
	}
	if mode == "rt" {
		switch {
		case g.p(0.25):
			// a second connection on the same pool (a pool makes sense only when it is shared)
			ws.Pool = true
			n := g.rng(1, 3)
			for i := 0; i < n; i++ {
				m := WTMsgOp{Binary: g.p(0.5), Len: length(), Path: g.picks("WriteMessage", "NextWriter", "Prepared", "WriteString", "NextWriter")}
				if m.Len > 9000 {
					m.Len = g.rng(0, 9000)
				}
				if g.p(0.6) {
					m.Chunks = []int{g.pick(1, 3, 100, wb-1, wb, wb+1), g.pick(1, 7, 64, 4096)}
					for k := range m.Chunks {
						if m.Chunks[k] < 1 {
							m.Chunks[k] = 1
						}
					}
				}
				ws.Peer = append(ws.Peer, m)
			}
			if g.p(0.5) {
				// a broadcast: one prepared message object, first thing on both connections (its frame for a
				// client-role connection is built on first use - by whichever writer gets there first)
				ws.SharedLen = g.pick(0, 10, 300, 5000, 70000)
				sh := WTMsgOp{Binary: g.p(0.5), Len: ws.SharedLen, Path: "SharedPrepared"}
				ws.Msgs = append([]WTMsgOp{sh}, ws.Msgs...)
				ws.Peer = append([]WTMsgOp{sh}, ws.Peer...)
				if g.p(0.7) {
					ws.WriterSrv = false
				}
			}
		case (prop == "C14" && g.p(0.2)) || (prop == "C13" && g.p(0.12)):
			// the writer's stream fails somewhere inside the frames (enumerated by the run index), later writes follow
			total := 0
			for _, m := range ws.Msgs {
				total += m.Len + 9
			}
			ws.WFailAt = 1 + genRunIndex%int64(total+1)
			ws.WFailKind = g.picks("reset", "timeout")
			ws.WFailOnce = ws.WFailKind == "timeout" && g.p(0.7)
			if len(ws.Msgs) < 3 {
				ws.Msgs = append(ws.Msgs, WTMsgOp{Binary: g.p(0.5), Len: g.pick(0, 5, 300), Path: g.picks("Prepared", "WriteMessage", "NextWriter")}, WTMsgOp{Len: g.pick(1, 200), Path: g.picks("Prepared", "Prepared", "WriteMessage")})
			}
		}
	}
	ws.EOFWithData = g.p(0.3)
	if mode == "tot" && g.p(0.3) {
		ws.UseReadMessage = true
		ws.StaleRead = false
	}
	sc.WT = ws
	sc.Policy, sc.HotFuncs = genPolicy(g, nil, 2000)
	sc.MaxSteps = 400000
	// byte-sized fragments on very long messages only burn scheduler steps
	maxLen := len(ws.Stream)
	for _, m := range ws.Msgs {
		if m.Len > maxLen {
			maxLen = m.Len
		}
	}
	for i := range ws.Msgs {
		// byte-sized writes of a very long message only burn the run's yield budget
		if ws.Msgs[i].Len > 5000 {
			for k := range ws.Msgs[i].Chunks {
				if ws.Msgs[i].Chunks[k] < 64 {
					ws.Msgs[i].Chunks[k] *= 97
				}
			}
		}
	}
	if maxLen > 5000 {
		for i := range ws.Frag {
			if ws.Frag[i] < 64 {
				ws.Frag[i] *= 97
			}
		}
		if ws.ReadChunk < 64 {
			ws.ReadChunk = 512
		}
		if ws.ReadBuf > 0 && ws.ReadBuf < 64 {
			ws.ReadBuf = 1024
		}
	}
	return sc
}

// genTotal builds the C15 streams: valid corpus truncated at an enumerated
// offset / faulted at an enumerated read offset (driven by the run index, so
// that consecutive runs enumerate every offset), mutated streams, huge lengths.
func genTotal(g *G, ws *WTScen, nmsg int) {
	var valid []byte
	small := []int{0, 1, 5, 125, 126, 127, 300, 70000}
	for i := 0; i < nmsg; i++ {
		n := small[g.IntN(len(small))]
		if n == 70000 && !g.p(0.2) {
			n = g.rng(0, 200)
		}
		form := 0
		if n >= 126 {
			form = 1
		}
		if n >= 65536 {
			form = 2
		}
		if g.p(0.3) && form < 2 {
			form = g.rng(form, 2)
		}
		valid = ref.AppendWTFrameForm(valid, ref.WTMsg{Binary: g.p(0.5), Data: wtPayload(i+1, n)}, form)
	}
	ws.Stream = valid
	ws.ExtraReads = g.pick(0, 1, 3, 10)
	if g.p(0.5) {
		ws.ReadLimit = int64(g.pick(1, 100, 125, 126, 127, 300, 65535, 65536, 100000))
	}
	if g.p(0.5) {
		ws.Consume = []int{g.pick(-1, 0, 1, 3, 100), g.pick(-1, -1, 0, 50)}
	}
	ws.StaleRead = g.p(0.4)
	k := int(genRunIndex)
	switch x := g.Float64(); {
	case x < 0.35: // truncation at an enumerated offset
		if len(valid) > 0 {
			ws.Stream = valid[:k%(len(valid)+1)]
		}
	case x < 0.6: // stream error at an enumerated read offset
		ws.FailAt = int64(k % (len(valid) + 1))
		ws.FailKind = g.picks("reset", "timeout", "eof")
		ws.FailOnce = ws.FailKind == "timeout" && g.p(0.5)
	case x < 0.8: // mutation
		b := append([]byte(nil), valid...)
		n := g.rng(1, 3)
		for i := 0; i < n && len(b) > 0; i++ {
			switch g.IntN(4) {
			case 0:
				b[g.IntN(len(b))] ^= byte(1 << g.IntN(8))
			case 1:
				b[g.IntN(min(len(b), 12))] = byte(g.pick(0x7e, 0x7f, 0xfe, 0xff, 0x00, 0x80))
			case 2:
				j := g.IntN(len(b))
				b = append(b[:j], b[j+1:]...)
			case 3:
				j := g.IntN(len(b) + 1)
				b = append(b[:j], append([]byte{byte(g.IntN(256))}, b[j:]...)...)
			}
		}
		ws.Stream = b
	case x < 0.9: // 64-bit lengths up to 2^64-1
		h := []byte{byte(g.pick(0x7f, 0xff))}
		v := []uint64{1 << 63, 1<<64 - 1, 1<<63 - 1, 1 << 62, 1 << 32, 1 << 31, 70000}[g.IntN(7)]
		for i := 7; i >= 0; i-- {
			h = append(h, byte(v>>(8*uint(i))))
		}
		ws.Stream = append(append([]byte(nil), valid[:g.IntN(len(valid)+1)]...), append(h, wtPayload(9, g.rng(0, 50))...)...)
	default: // random bytes
		b := make([]byte, g.rng(0, 40))
		for i := range b {
			b[i] = byte(g.IntN(256))
		}
		ws.Stream = b
	}
	ws.EOF = true
}

func shrinkWT(sc *Scenario) []shrinkCand {
	if sc.WT == nil {
		return nil
	}
	var out []shrinkCand
	add := func(what string, f func(c *Scenario) bool) {
		c := cloneScenario(sc)
		if f(c) {
			out = append(out, shrinkCand{c, what})
		}
	}
	ws := sc.WT
	for i := range ws.Msgs {
		i := i
		if len(ws.Msgs) > 1 {
			add("drop-message", func(c *Scenario) bool { c.WT.Msgs = append(c.WT.Msgs[:i], c.WT.Msgs[i+1:]...); return true })
		}
		if len(ws.Msgs[i].Chunks) > 0 {
			add("no-chunking", func(c *Scenario) bool { c.WT.Msgs[i].Chunks = nil; return true })
		}
	}
	if len(ws.Frag) > 0 {
		add("no-frag", func(c *Scenario) bool { c.WT.Frag = nil; return true })
	}
	if ws.Pool && len(ws.Peer) == 0 {
		add("no-pool", func(c *Scenario) bool { c.WT.Pool = false; return true })
	}
	for i := range ws.Peer {
		i := i
		if len(ws.Peer) > 1 {
			add("drop-peer-message", func(c *Scenario) bool { c.WT.Peer = append(c.WT.Peer[:i], c.WT.Peer[i+1:]...); return true })
		}
	}
	if ws.EOFWithData {
		add("plain-eof", func(c *Scenario) bool { c.WT.EOFWithData = false; return true })
	}
	if ws.UseReadMessage {
		add("next-reader", func(c *Scenario) bool { c.WT.UseReadMessage = false; return true })
	}
	if ws.ReadBuf != 0 {
		add("default-readbuf", func(c *Scenario) bool { c.WT.ReadBuf = 0; return true })
	}
	if len(ws.Consume) > 0 {
		add("consume-all", func(c *Scenario) bool { c.WT.Consume = nil; return true })
	}
	if ws.ExtraReads > 1 {
		add("fewer-extra-reads", func(c *Scenario) bool { c.WT.ExtraReads = 1; return true })
	}
	if ws.Mode != "rt" && len(ws.Stream) > 1 {
		add("shorter-stream", func(c *Scenario) bool { c.WT.Stream = c.WT.Stream[:len(c.WT.Stream)/2]; return true })
	}
	return out
}
