package sim

import (
	"strconv"
	"strings"
	"time"

	"github.com/zishang520/engine.io/v2/simrt"
	"verif/sim/ref"
)

// rawConn is what raw scripts can drive directly.
type rawConn interface {
	streamConn
	sendRaw(b []byte) error
}

// runRaw plays a scripted raw client: arbitrary requests and frames.
func (c *Client) runRaw() {
	c.rec("c-raw", "", int64(len(c.sp.Raw)))
	var pending []*Resp
	for i := range c.sp.Raw {
		op := c.sp.Raw[i]
		if op.AtMs > 0 {
			simrt.Sleep(time.Duration(op.AtMs) * time.Millisecond)
		}
		if c.closed || c.stopped {
			break // the run is being wound up (every client vanishes): a vanished client sends nothing more
		}
		switch op.Op {
		case "wait":
		case "http":
			q := op.Query
			if op.UseSid {
				if q != "" {
					q += "&"
				}
				q += "sid=" + c.sid
			}
			if op.SidOf != "" {
				if q != "" {
					q += "&"
				}
				q += "sid=" + c.w.sidOf(op.SidOf)
			}
			path := op.Path
			if path == "" {
				path = c.path()
			}
			rs := ReqSpec{Method: op.Method, Path: path, Query: q, Hdr: op.Hdr, Body: op.Body, BodyGen: op.BodyGen, NoCL: op.NoCL, BodyErrAt: op.BodyErrAt}
			if rs.Body == nil && op.Method == "POST" && op.BodyGen == 0 {
				rs.Body = []byte{}
			}
			do := func() {
				r := c.w.serve(c.w.H, c.name, rs)
				c.w.recx(Ev{Sess: c.name, Kind: "c-raw-resp", S: clip(string(r.Body), 200), N: int64(r.Status), P: []string{op.Method, strconv.Itoa(i), byApp(r), strconv.Itoa(r.ID)}})
				c.learnSid(r)
			}
			if op.Async {
				req, r := c.w.newRequest(c.name, rs)
				pending = append(pending, r)
				c.spawn("rawreq", func() {
					c.w.serveReq(c.w.H, req, r)
					c.w.recx(Ev{Sess: c.name, Kind: "c-raw-resp", S: clip(string(r.Body), 200), N: int64(r.Status), P: []string{op.Method, strconv.Itoa(i), byApp(r), strconv.Itoa(r.ID)}})
					c.learnSid(r)
				})
				simrt.Yield(-5)
			} else {
				do()
			}
		case "abort":
			for _, r := range pending {
				if !r.Returned {
					r.abort()
				}
			}
		case "ws-open":
			q := op.Query
			if op.UseSid {
				q += "&sid=" + c.sid
			}
			if op.SidOf != "" {
				q += "&sid=" + c.w.sidOf(op.SidOf)
			}
			hx := map[string]string{}
			for k, v := range op.Hdr {
				hx[k] = v
			}
			if op.Path != "" {
				hx[":path"] = op.Path
			}
			s, r := c.openWS(q, hx)
			st := int64(101)
			if s == nil {
				st = int64(r.Status)
			} else {
				rc := s.(rawConn)
				c.rawConns = append(c.rawConns, rc)
				n := len(c.rawConns)
				closeFrames := 0
				c.spawn("rawrd", func() {
					for {
						p, err := rc.recvPacket()
						if err != nil && strings.HasPrefix(err.Error(), "close frame") && closeFrames < 3 {
							// a close frame is a request to end the connection, not its end: a peer that ignores it keeps
							// the connection for as long as the server does not hang up
							closeFrames++
							c.rec("c-raw-close-frame", err.Error(), int64(n))
							continue
						}
						if err != nil {
							c.rec("c-raw-stream-end", err.Error(), int64(n))
							return
						}
						c.rec("c-raw-recv", pktString(p), int64(n))
						if p.Type == tOpen && c.sid == "" {
							c.learnSidOpen(p.Data)
						}
					}
				})
			}
			body := ""
			if r != nil {
				body = string(r.Body)
			}
			c.w.recx(Ev{Sess: c.name, Kind: "c-raw-ws-open", S: q, N: st, P: []string{"WS", strconv.Itoa(i), clip(body, 200), func() string {
				if r != nil {
					return strconv.Itoa(r.ID)
				}
				return ""
			}()}})
		case "wt-open":
			hsBytes := op.Bytes
			if op.UseSid {
				// an upgrade candidate: the WebTransport handshake packet names the session
				hsBytes = ref.AppendWTFrame(nil, ref.WTMsg{Data: []byte(`0{"sid":"` + c.sid + `"}`)})
			}
			s, r := c.openWTRaw(hsBytes)
			st := int64(200)
			if s == nil {
				if r != nil {
					st = int64(r.Status)
				} else {
					st = 0
				}
			} else {
				rc := s.(rawConn)
				c.rawConns = append(c.rawConns, rc)
				n := len(c.rawConns)
				c.spawn("rawrd", func() {
					for {
						p, err := rc.recvPacket()
						if err != nil {
							c.rec("c-raw-stream-end", err.Error(), int64(n))
							return
						}
						c.rec("c-raw-recv", pktString(p), int64(n))
						if p.Type == tOpen && c.sid == "" {
							c.learnSidOpen(p.Data)
						}
					}
				})
			}
			c.rec("c-raw-wt-open", "", st)
		case "ws-frame", "ws-raw", "wt-raw", "ws-close", "wt-close", "ws-reset":
			if op.Conn >= len(c.rawConns) {
				continue
			}
			rc := c.rawConns[op.Conn]
			switch op.Op {
			case "ws-frame":
				f := op.Frame
				pl := f.Payload
				if f.GenLen > 0 {
					pl = []byte("4" + strings.Repeat("x", f.GenLen-1))
				}
				ws := rc.(*wsClient)
				rc.sendRaw(ref.AppendWSFrame(nil, ref.WSFrame{Fin: f.Fin, Op: f.Op, Masked: true, Payload: pl}, ws.mask()))
			case "ws-raw", "wt-raw":
				rc.sendRaw(op.Bytes)
			case "ws-close", "wt-close":
				rc.close()
			case "ws-reset":
				if rs, ok := rc.(interface{ reset() }); ok {
					rs.reset()
				}
			}
		}
	}
	c.rec("c-raw-done", "", 0)
}

func byApp(r *Resp) string {
	if r.Status == 418 && r.H.Get("X-App") == "1" {
		return "app"
	}
	return "engine"
}

func (w *World) sidOf(alias string) string {
	w.mu.Lock()
	defer w.mu.Unlock()
	if s := w.SockIDs[alias]; s != "" {
		return s
	}
	return "NoSuchSessionAAAAAAAAAAA"
}

func (c *Client) learnSid(r *Resp) {
	if c.sid != "" || r.Status != 200 {
		return
	}
	ps, err := decodePollBody(c.eio(), c.sp.JSONP, r.H.Get("Content-Type"), r.Body)
	if err != nil {
		return
	}
	for _, p := range ps {
		if p.Type == tOpen {
			c.learnSidOpen(p.Data)
		}
	}
}

func (c *Client) learnSidOpen(data []byte) {
	s := string(data)
	if i := strings.Index(s, `"sid":"`); i >= 0 {
		s = s[i+7:]
		if j := strings.Index(s, `"`); j >= 0 {
			c.sid = s[:j]
			c.opened = true
			c.openAt = simrt.Now()
		}
	}
}
