package sim

import (
	"encoding/json"
	"fmt"
	"sort"
	"strings"
	"time"
)

func init() {
	sessionOracles = append(sessionOracles, oracleC01, oracleC02, oracleC06)
}

type vlist struct {
	prop string
	out  []Violation
}

func (l *vlist) add(rule, ctx, msg string) {
	l.out = append(l.out, Violation{Prop: l.prop, Rule: rule, Sig: joinSig(rule, ctx), Msg: msg})
}

// clientSpecOf finds a client's spec.
func (f *sessionFam) spec(name string) *ClientSpec {
	for i := range f.sc.Clients {
		if f.sc.Clients[i].Name == name {
			return &f.sc.Clients[i]
		}
	}
	return nil
}

// ctxOf describes a session for signatures: transport history, revision, flags.
func (f *sessionFam) sessCtx(name string) string {
	sp := f.spec(name)
	if sp == nil {
		return ""
	}
	c := sp.Transport
	if sp.Upgrade != "" {
		c += "+" + sp.Upgrade
	}
	c += fmt.Sprintf("/v%d", func() int {
		if sp.EIO == 4 {
			return 4
		}
		return 3
	}())
	if sp.JSONP {
		c += "/jsonp"
	} else if sp.B64 {
		c += "/b64"
	}
	return c
}

// conformantToEnd: the client followed the protocol and kept reading until the end of the scripted part.
func (f *sessionFam) conformantToEnd(w *World, name string) bool {
	sp := f.spec(name)
	if sp == nil || len(sp.Raw) > 0 || sp.StopAtMs > 0 || sp.CloseAtMs > 0 || len(sp.Faults) > 0 {
		return false
	}
	for _, e := range w.evs(name, "c-gone") {
		_ = e
		return false
	}
	return true
}

// oracleC01: outbound messages are a per-sender prefix, exactly once, kind preserved; eventually delivered.
func oracleC01(f *sessionFam, w *World, res *Result) []Violation {
	l := &vlist{prop: "C01"}
	for _, a := range sortedKeys(w.sent) {
		sent := w.sent[a]
		if sp := f.spec(a); sp != nil && impatientSpec(sp) {
			// a client that switched transports without waiting for its poll in flight gives up what that poll
			// still carries: the property speaks of protocol-conformant clients
			continue
		}
		dupPoll := false
		if sp := f.spec(a); sp != nil {
			for _, ft := range sp.Faults {
				dupPoll = dupPoll || ft.Kind == "dup-poll"
			}
		}
		type key struct{ s string }
		idx := map[string][2]int{} // payload(with kind) -> sender ordinal, index within sender
		bySender := map[string][]SentMsg{}
		optOf := map[string]string{}
		for _, m := range sent {
			k := kindPrefix(m.Binary) + string(m.Data)
			bySender[m.Sender] = append(bySender[m.Sender], m)
			idx[k] = [2]int{0, len(bySender[m.Sender]) - 1}
		}
		for _, e := range w.evs(a, "app-send") {
			if len(e.P) >= 3 {
				optOf[e.S] = e.P[2]
			}
		}
		// which messages sit behind a pre-encoded one in their flush batch
		behindPre := map[string]bool{}
		for _, e := range w.evs(a, "flush") {
			pre := false
			for _, p := range e.P {
				k := strings.TrimPrefix(p, "message|")
				if pre {
					behindPre[k] = true
				}
				if optOf[k] == "preencoded" {
					pre = true
				}
			}
		}
		lossCtx := func(k string) string {
			if behindPre[k] {
				return "/behind-preencoded-in-batch"
			}
			return optCtx(optOf[k])
		}
		senderOf := map[string]string{}
		for s, ms := range bySender {
			for _, m := range ms {
				senderOf[kindPrefix(m.Binary)+string(m.Data)] = s
			}
		}
		next := map[string]int{}
		seen := map[string]bool{}
		initial := f.sc.Opts.InitialPacket
		ctx := f.sessCtx(a)
		for _, e := range w.evs(a, "c-recv") {
			tr := ""
			if len(e.P) > 0 {
				tr = e.P[0]
			}
			if initial != "" && !seen["\x00init"] {
				// the first message of a session with a configured initial packet is that
				// packet; what it looks like is C06's business
				seen["\x00init"] = true
				if _, mine := senderOf[e.S]; !mine {
					continue
				}
			}
			if seen[e.S] {
				l.add("exactly-once", tr, fmt.Sprintf("%s [%s]: message %q delivered to the client twice", a, ctx, clip(e.S, 60)))
				continue
			}
			seen[e.S] = true
			s, ok := senderOf[e.S]
			if !ok {
				// same bytes with the other kind?
				alt := "b:" + e.S[2:]
				if strings.HasPrefix(e.S, "b:") {
					alt = "t:" + e.S[2:]
				}
				if _, ok2 := senderOf[alt]; ok2 {
					l.add("kind-preserved", tr+optCtx(optOf[alt]), fmt.Sprintf("%s [%s]: message %q arrived with the wrong text/binary kind", a, ctx, clip(e.S, 60)))
					seen[alt] = true
					s = senderOf[alt]
					next[s]++
					continue
				}
				l.add("identical-bytes", tr, fmt.Sprintf("%s [%s]: client received %q (len %d) which the application never sent", a, ctx, clip(e.S, 60), len(e.S)-2))
				continue
			}
			want := bySender[s][min(next[s], len(bySender[s])-1)]
			wk := kindPrefix(want.Binary) + string(want.Data)
			if (next[s] >= len(bySender[s]) || wk != e.S) && dupPoll {
				// two polls of one client were outstanding (fault 'dup-poll'): the order in which a client processes
				// two responses that travel on different connections is its own business, not the server's
				w.probe("order_not_judged_two_polls_outstanding")
				for i, m := range bySender[s] {
					if kindPrefix(m.Binary)+string(m.Data) == e.S {
						next[s] = i + 1
					}
				}
				continue
			}
			if next[s] >= len(bySender[s]) || wk != e.S {
				l.add("per-sender-prefix", tr+lossCtx(wk), fmt.Sprintf("%s [%s]: sender %s: client received %q while the next undelivered message of that sender is %q (messages lost or reordered)", a, ctx, s, clip(e.S, 50), clip(wk, 50)))
				// resynchronise after the received one
				for i, m := range bySender[s] {
					if kindPrefix(m.Binary)+string(m.Data) == e.S {
						next[s] = i + 1
					}
				}
				continue
			}
			next[s]++
		}
		// a poll response the conformant client cannot decode at all (the decoder is chosen the way a browser
		// client chooses it: by revision, JSONP and Content-Type) is not what the application sent either
		if sp := f.spec(a); sp != nil && len(sp.Raw) == 0 && len(sp.Faults) == 0 {
			if ud := w.evs(a, "c-poll-undecodable"); len(ud) > 0 {
				l.add("identical-bytes", "undecodable-poll-response", fmt.Sprintf("%s [%s]: the client could not decode a poll response: %s", a, ctx, clip(ud[0].S, 120)))
			}
		}
		// liveness: fault-free, session open to the end, client kept reading
		if f.sc.FaultFree && f.ended && readyOf(f.snap[a]) == "open" && f.conformantToEnd(w, a) {
			for _, s := range sortedKeys(bySender) {
				ms := bySender[s]
				if next[s] < len(ms) {
					m := ms[next[s]]
					// sends issued in the last moments may legitimately be in flight
					if e := w.Evs[m.Seq-1]; f.endAt-e.T < 300*time.Millisecond {
						continue
					}
					wk := kindPrefix(m.Binary) + string(m.Data)
					l.add("eventually-delivered", strings.TrimPrefix(lossCtx(wk), "/"), fmt.Sprintf("%s [%s]: sender %s: message %q (sent at event #%d, state %s) was never received although the session stayed open and the client kept reading", a, ctx, s, clip(wk, 50), m.Seq, m.State))
				}
			}
		}
	}
	return l.out
}

func optCtx(o string) string {
	if o == "" {
		return ""
	}
	return "/" + o
}

// oracleC02: inbound messages are delivered once, in order, intact; nothing from candidates.
func oracleC02(f *sessionFam, w *World, res *Result) []Violation {
	l := &vlist{prop: "C02"}
	aliases := map[string]bool{}
	for _, e := range w.Evs {
		if e.Kind == "c-send" || e.Kind == "message" {
			aliases[e.Sess] = true
		}
	}
	for _, a := range sortedKeys(aliases) {
		sp := f.spec(a)
		if sp == nil || len(sp.Raw) > 0 {
			continue // raw clients submit whatever they like; C09/C10 look at them
		}
		ctx := f.sessCtx(a)
		// signature context: revision-3 sessions that submitted binary messages use the binary payload form
		sctx := ""
		if sp.EIO != 4 && sp.Transport == "polling" && !sp.B64 {
			for _, m := range sp.Sends {
				if m.Binary {
					sctx = "v3-binary-payload-form"
				}
			}
		}
		var sends []Ev
		dupSent, dupGot := 0, 0
		afterClose := map[string]bool{}
		cand := map[string]bool{}
		for _, e := range w.Evs {
			if e.Sess != a {
				continue
			}
			switch e.Kind {
			case "c-send":
				if e.S == "t:dup" {
					// the payload of an injected overlapping data request (fault 'dup-post'): it travels on its own,
					// non-conformant request, so its order relative to the regular requests is not defined
					dupSent++
					continue
				}
				sends = append(sends, e)
			case "c-cand-send":
				cand[e.S] = true
			case "c-send-after-close":
				afterClose[e.S] = true
			}
		}
		closeSeq := 0
		if c := w.evs(a, "close"); len(c) > 0 {
			closeSeq = c[0].Seq
		}
		// messages are handed to the application while the session is open: a session that the application has closed
		// gracefully (state 'closing', waiting for the client's next poll) delivers nothing any more. (A message in the
		// very instant of the Close call raced with it: its handler had passed the state test.)
		for _, e := range w.evs(a, "message") {
			if readyOf(e.St) != "closing" {
				continue
			}
			for _, ac := range w.evs(a, "app-close") {
				if ac.T < e.T {
					l.add("delivered-only-while-open", "closing", fmt.Sprintf("%s [%s]: message %q delivered at %v in state 'closing' (Close was called at %v)", a, ctx, clip(e.S, 40), e.T, ac.T))
					break
				}
			}
		}
		i := 0
		delivered := map[int]bool{}
		for _, e := range w.evs(a, "message") {
			if e.S == "t:dup" && dupSent > 0 {
				dupGot++
				if dupGot > dupSent {
					l.add("exactly-once", sctx, fmt.Sprintf("%s [%s]: inbound message %q delivered %d times, submitted %d times", a, ctx, e.S, dupGot, dupSent))
				}
				continue
			}
			if afterClose[e.S] {
				l.add("nothing-after-close-packet", sctx, fmt.Sprintf("%s [%s]: message %q followed a close packet in the same payload and was delivered to the application", a, ctx, clip(e.S, 50)))
				continue
			}
			if cand[e.S] {
				l.add("candidate-messages-not-delivered", "", fmt.Sprintf("%s [%s]: message %q sent on an upgrade candidate that never completed was delivered to the application", a, ctx, clip(e.S, 50)))
				continue
			}
			// find e.S among the sends at or after i
			j := -1
			for k := i; k < len(sends); k++ {
				if sends[k].S == e.S {
					j = k
					break
				}
			}
			if j < 0 {
				// earlier (duplicate or reordered) or never sent
				dup := false
				for k := 0; k < i && k < len(sends); k++ {
					if sends[k].S == e.S {
						dup = true
						if delivered[k] {
							l.add("exactly-once", sctx, fmt.Sprintf("%s [%s]: inbound message %q delivered twice", a, ctx, clip(e.S, 50)))
						} else {
							l.add("in-order", sctx, fmt.Sprintf("%s [%s]: inbound message %q delivered after a later one", a, ctx, clip(e.S, 50)))
							delivered[k] = true
						}
						break
					}
				}
				if !dup {
					alt := altKind(e.S)
					found := false
					for k := range sends {
						if sends[k].S == alt {
							found = true
						}
					}
					if found {
						l.add("kind-preserved", sctx, fmt.Sprintf("%s [%s]: inbound message %q delivered with the wrong text/binary kind", a, ctx, clip(e.S, 50)))
					} else {
						l.add("identical-bytes", sctx, fmt.Sprintf("%s [%s]: application got message %q (len %d) that the client never submitted", a, ctx, clip(e.S, 50), len(e.S)-2))
					}
				}
				continue
			}
			if e.Seq < sends[j].Seq {
				l.add("causal", sctx, fmt.Sprintf("%s: message %q delivered before it was submitted", a, clip(e.S, 40)))
			}
			delivered[j] = true
			i = j + 1
		}
		// a conformant client submits well-formed packets only: none of them may be taken for a malformed one
		if f.sc.FaultFree && closeSeq != 0 && len(sp.Cand) == 0 {
			if ce := w.evs(a, "close"); len(ce) > 0 && ce[0].S == "parse error" {
				gone := w.evs(a, "c-gone")
				if len(gone) == 0 || gone[0].Seq > ce[0].Seq {
					tr := transportOf(ce[0].St)
					l.add("well-formed-packet-rejected", strings.TrimPrefix(sctx+"/"+tr, "/"), fmt.Sprintf("%s [%s]: the session was closed with 'parse error' although the client submitted well-formed packets only", a, ctx))
				}
			}
		}
		// completeness: a fault-free conformant client, session open to the end
		if f.sc.FaultFree && f.ended && readyOf(f.snap[a]) == "open" && f.conformantToEnd(w, a) {
			for k, s := range sends {
				if !delivered[k] && f.endAt-s.T > 300*time.Millisecond && (closeSeq == 0 || s.Seq < closeSeq) {
					dctx := sctx
					if att := w.evs(a, "app-attached"); len(att) > 0 && s.Seq < att[0].Seq {
						// submitted (after the open packet) before the server announced the session to the application
						dctx = strings.TrimPrefix(sctx+"/before-connection-event", "/")
					}
					l.add("delivered", dctx, fmt.Sprintf("%s [%s]: message %q submitted at %v on an open session was never delivered to the application", a, ctx, clip(s.S, 50), s.T))
					break
				}
			}
		}
	}
	return l.out
}

func altKind(s string) string {
	if strings.HasPrefix(s, "b:") {
		return "t:" + s[2:]
	}
	if strings.HasPrefix(s, "t:") {
		return "b:" + s[2:]
	}
	return s
}

// shutdownDuringHandshake: a Server.Close / HTTP server close was invoked between the arrival of a's handshake request
// and the return of its handler.
func (f *sessionFam) shutdownDuringHandshake(w *World, a string) bool {
	var from, to int64 = -1, -1
	for _, e := range w.Evs {
		if e.Sess != a {
			continue
		}
		if e.Kind == "http-req" && from < 0 {
			from = int64(e.Seq)
		}
		if e.Kind == "http-ret" && from >= 0 {
			to = int64(e.Seq)
			break
		}
	}
	if from < 0 {
		return false
	}
	// the shutdown is under way from its invocation to its return: the two intervals overlap
	var open int64 = -1
	for _, e := range w.Evs {
		switch e.Kind {
		case "app-server-close", "app-http-close":
			open = int64(e.Seq)
		case "app-server-close-ret", "app-http-close-ret":
			if open >= 0 && open < toOr(to) && int64(e.Seq) > from {
				return true
			}
			open = -1
		}
	}
	if open >= 0 && open < toOr(to) {
		return true // (a shutdown that never returned)
	}
	return false
}

// oracleC06: one session per admitted handshake, open packet advertises the effective configuration.
func oracleC06(f *sessionFam, w *World, res *Result) []Violation {
	l := &vlist{prop: "C06"}
	o := f.sc.Opts
	// sessions and announcements match: what the client table still holds when every client has long gone was
	// created by some handshake; a session in there that was never announced with a connection event is a session
	// too many (the registry as such is C04's business)
	if f.drained {
		announced := map[string]bool{}
		for _, e := range w.Evs {
			if e.Kind == "connection" {
				announced[e.S] = true
			}
		}
		for _, e := range w.evs("", "final-registry") {
			for _, id := range e.P {
				if !announced[id] {
					l.add("one-session-per-announcement", "unannounced-session-left-in-table", fmt.Sprintf("the client table still holds session %s, which was never announced with a connection event", id))
				}
			}
		}
	}
	pi, pt, mb := int64(o.PingIntervalMs), int64(o.PingTimeoutMs), o.MaxBuf
	if pi == 0 {
		pi = 25000
	}
	if pt == 0 {
		pt = 20000
	}
	if mb == 0 {
		mb = 1000000
	}
	enabled := map[string]bool{}
	tr := o.Transports
	if len(tr) == 0 {
		tr = []string{"polling", "websocket"}
	}
	for _, t := range tr {
		enabled[t] = true
	}
	for i := range f.sc.Clients {
		sp := &f.sc.Clients[i]
		if len(sp.Raw) > 0 {
			continue
		}
		a := sp.Name
		ctx := f.sessCtx(a)
		hs := w.evs(a, "c-handshake")
		if len(hs) == 0 || len(w.evs(a, "c-handshake-aborted")) > 0 {
			continue // the client gave up during the handshake: nothing to compare its (lost) response with
		}
		conns := w.evs(a, "connection")
		admitted := hs[0].N == 200 || hs[0].N == 101
		if hs[0].N == 101 && len(conns) == 0 && len(w.evs(a, "c-open")) == 0 {
			// a WebSocket connection is accepted before the handshake is judged: a refusal then arrives as a
			// close frame carrying the error text (C05's clause), no open packet, no session
			admitted = false
		}
		eio := 3
		if sp.EIO == 4 {
			eio = 4
		}
		if eio == 3 && !o.AllowEIO3 {
			if admitted || len(conns) > 0 {
				l.add("eio3-needs-optin", "", fmt.Sprintf("%s [%s]: revision-3 handshake admitted although allowEIO3 is off", a, ctx))
			}
			continue
		}
		if !admitted {
			if len(conns) > 0 {
				l.add("refused-handshake-no-session", "", fmt.Sprintf("%s [%s]: handshake answered %d but a connection event was emitted", a, ctx, hs[0].N))
			}
			continue
		}
		if len(conns) == 0 && f.shutdownDuringHandshake(w, a) {
			// the server was shut down while this session was being set up: it was closed with every other
			// session (C12) before it could be announced, and a session that is already closed is not announced
			continue
		}
		if len(conns) == 0 {
			// the client hung up (or its connection failed) while the server was still inside the handshake - on a
			// stream transport it has the open packet before the handler returns: a session that is lost while it is
			// being set up is not announced
			if gone := w.evs(a, "c-gone"); len(gone) > 0 {
				if ret := w.evs(a, "http-ret"); len(ret) > 0 && gone[0].Seq < ret[0].Seq {
					continue
				}
			}
		}
		if len(conns) != 1 {
			l.add("one-connection-event", "", fmt.Sprintf("%s [%s]: admitted handshake produced %d connection events", a, ctx, len(conns)))
			continue
		}
		if int(conns[0].N) != eio {
			l.add("revision", "", fmt.Sprintf("%s [%s]: session protocol is %d, handshake said EIO=%d", a, ctx, conns[0].N, sp.EIO))
		}
		opens := w.evs(a, "c-open")
		if len(opens) == 0 {
			if ce := w.evs(a, "close"); len(ce) > 0 && f.armedCauses(w, a, ce[0].Seq)[ce[0].S] && ce[0].T-hs[0].T <= time.Duration(2*sp.LatencyMs+1)*time.Millisecond {
				// the session was closed for a cause of its own (a shutdown, an application close) while the open packet
				// was still on its way: the connection went down under it
				continue
			}
			if cba := w.evs(a, "close-before-attach"); len(cba) > 0 && f.shutdownDuringHandshake(w, a) {
				// the same, with the shutdown between the announcement and the application's first look at the session
				continue
			}
			l.add("open-packet-first", "", fmt.Sprintf("%s [%s]: admitted handshake but the client never received an open packet", a, ctx))
			continue
		}
		// the open packet must be the very first packet the client sees
		for _, e := range w.Evs {
			if e.Sess == a && (e.Kind == "c-recv" || e.Kind == "c-ping" || e.Kind == "c-noop" || e.Kind == "c-pong" || e.Kind == "c-other") {
				if e.Seq < opens[0].Seq {
					l.add("open-packet-first", "", fmt.Sprintf("%s [%s]: client received %s before the open packet", a, ctx, e.Kind))
				}
				break
			}
		}
		var op struct {
			Sid          string   `json:"sid"`
			Upgrades     []string `json:"upgrades"`
			PingInterval *int64   `json:"pingInterval"`
			PingTimeout  *int64   `json:"pingTimeout"`
			MaxPayload   *int64   `json:"maxPayload"`
		}
		if err := json.Unmarshal([]byte(opens[0].S), &op); err != nil {
			l.add("open-json", "", fmt.Sprintf("%s: open packet is not JSON: %v", a, err))
			continue
		}
		if op.Sid != conns[0].S {
			l.add("open-sid", "", fmt.Sprintf("%s [%s]: open packet sid %q differs from the session id %q", a, ctx, op.Sid, conns[0].S))
		}
		if op.PingInterval == nil || *op.PingInterval != pi {
			l.add("open-ping-interval", "", fmt.Sprintf("%s: open packet pingInterval %v, configured %d ms", a, deref(op.PingInterval), pi))
		}
		if op.PingTimeout == nil || *op.PingTimeout != pt {
			l.add("open-ping-timeout", "", fmt.Sprintf("%s: open packet pingTimeout %v, configured %d ms", a, deref(op.PingTimeout), pt))
		}
		if op.MaxPayload == nil || *op.MaxPayload != mb {
			l.add("open-max-payload", "", fmt.Sprintf("%s: open packet maxPayload %v, configured %d", a, deref(op.MaxPayload), mb))
		}
		var want []string
		if sp.Transport == "polling" && o.AllowUpgrades {
			for _, t := range []string{"websocket", "webtransport"} {
				if enabled[t] {
					want = append(want, t)
				}
			}
		}
		got := append([]string(nil), op.Upgrades...)
		sort.Strings(got)
		sort.Strings(want)
		if strings.Join(got, ",") != strings.Join(want, ",") || op.Upgrades == nil {
			l.add("open-upgrades", sp.Transport, fmt.Sprintf("%s [%s]: open packet upgrades %v, expected %v (allowUpgrades=%v, transports=%v)", a, ctx, op.Upgrades, want, o.AllowUpgrades, tr))
		}
		// initial packet: first message of every session
		if o.InitialPacket != "" {
			recv := w.evs(a, "c-recv")
			alive := f.conformantToEnd(w, a) && f.sc.FaultFree
			if len(recv) > 0 {
				if recv[0].S != "t:"+o.InitialPacket {
					l.add("initial-packet-first", "", fmt.Sprintf("%s [%s]: initial packet configured but the first message received is %q", a, ctx, clip(recv[0].S, 40)))
				}
			} else if alive && f.ended {
				l.add("initial-packet-first", "", fmt.Sprintf("%s [%s]: initial packet %q configured but this session never received it", a, ctx, o.InitialPacket))
			}
		}
	}
	return l.out
}

func deref(p *int64) any {
	if p == nil {
		return "absent"
	}
	return *p
}

// impatientSpec: the client's upgrade script switches without pausing the polling transport first.
func impatientSpec(sp *ClientSpec) bool {
	for _, op := range sp.Cand {
		if op.Arg == "nopause" {
			return true
		}
	}
	return false
}

func toOr(to int64) int64 {
	if to < 0 {
		return 1 << 62
	}
	return to
}
