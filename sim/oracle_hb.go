package sim

import (
	"fmt"
	"strings"
	"time"
)

func init() {
	sessionOracles = append(sessionOracles, oracleC07)
}

// oracleC07 steps the heartbeat timed automaton with the observed acceptance
// instants and compares ping emission and the ping-timeout close with it.
// Times are exact in virtual time (computation takes zero time); at exact ties
// (pong processed at the very deadline) both outcomes are accepted.
func oracleC07(f *sessionFam, w *World, res *Result) []Violation {
	l := &vlist{prop: "C07"}
	o := f.sc.Opts
	pi, pt := time.Duration(o.PingIntervalMs)*time.Millisecond, time.Duration(o.PingTimeoutMs)*time.Millisecond
	if pi == 0 {
		pi = 25 * time.Second
	}
	if pt == 0 {
		pt = 20 * time.Second
	}
	drainAt := time.Duration(1<<62 - 1)
	drainSeq := 1 << 30
	for _, e := range w.evs("", "drain-start") {
		drainAt, drainSeq = e.T, e.Seq
	}
	for _, a := range sortedKeys(w.Socks) {
		conns := w.evs(a, "connection")
		if len(conns) != 1 {
			continue
		}
		v4 := conns[0].N == 4
		ctx := f.sessCtx(a)
		var closeEv *Ev
		if c := w.closesOf(a); len(c) > 0 && c[0].Seq < drainSeq {
			// (a close during the wind-up of the run - every client vanishes - is the harness's doing: for the
			// heartbeat the session was open to the end)
			closeEv = &c[0]
		}
		endT := simEnd(w)
		if endT > drainAt {
			endT = drainAt
		}
		if closeEv != nil {
			endT = closeEv.T
		}
		// collect the session's heartbeat-relevant events in order
		type hev struct {
			kind string
			t    time.Duration
			seq  int
		}
		var hs []hev
		for _, e := range w.Evs {
			if e.Sess != a {
				continue
			}
			if closeEv != nil && e.Seq > closeEv.Seq {
				break // what happens after the close event is C03's business
			}
			switch {
			case e.Kind == "packetCreate" && strings.HasPrefix(e.S, "ping|"):
				hs = append(hs, hev{"ping-out", e.T, e.Seq})
			case e.Kind == "packetCreate" && strings.HasPrefix(e.S, "pong|"):
				hs = append(hs, hev{"pong-out", e.T, e.Seq})
			case e.Kind == "heartbeat":
				hs = append(hs, hev{"accept", e.T, e.Seq})
			case e.Kind == "packet" && strings.HasPrefix(e.S, "ping|"):
				hs = append(hs, hev{"ping-in", e.T, e.Seq})
			case e.Kind == "packet" && strings.HasPrefix(e.S, "pong|"):
				hs = append(hs, hev{"pong-in", e.T, e.Seq})
			case e.Kind == "upgrade":
				hs = append(hs, hev{"upgrade", e.T, e.Seq})
			}
		}
		if v4 {
			lastAccept := conns[0].T // the session opened (timers armed) at the instant of the connection event
			var outstanding *hev     // ping without accepted pong
			var answered *hev        // the ping the last accepted pong answered
			upgradedSincePing := false
			prevDue := lastAccept + pi // when the ping was due before the latest acceptance moved it
			tied := false
			for i := range hs {
				h := hs[i]
				if tied {
					break
				}
				switch h.kind {
				case "ping-out":
					want := lastAccept + pi
					if h.t != want && h.t == lastAccept && h.t == prevDue {
						// a pong was accepted at the very instant the next ping was due: the interval timer had fired
						// and was refreshed in the same instant. Both the ping now and the re-armed one are legal, and
						// from here on two ping chains interleave: the rest of this session's heartbeat is not judged
						w.probe("pong_accepted_at_ping_due_instant")
						tied = true
						continue
					}
					if outstanding != nil {
						l.add("one-ping-outstanding", "", fmt.Sprintf("%s [%s]: ping at %v while the ping of %v is unanswered", a, ctx, h.t, outstanding.t))
					} else if h.t != want {
						l.add("ping-one-interval-after-accept", "", fmt.Sprintf("%s [%s]: ping emitted at %v, expected at %v (last open/pong at %v + interval %v)", a, ctx, h.t, want, lastAccept, pi))
					}
					hh := h
					outstanding = &hh
					upgradedSincePing = false
				case "accept":
					if outstanding != nil && h.t > outstanding.t+pt && !upgradedSincePing {
						l.add("late-pong-not-accepted", "", fmt.Sprintf("%s [%s]: pong accepted at %v, after the deadline %v of the ping of %v", a, ctx, h.t, outstanding.t+pt, outstanding.t))
					}
					answered = outstanding
					outstanding = nil
					if h.t != lastAccept {
						prevDue = lastAccept + pi
					}
					lastAccept = h.t
				case "upgrade":
					upgradedSincePing = true
				case "pong-out":
					l.add("v4-server-never-pongs", "", fmt.Sprintf("%s [%s]: revision-4 server created a pong packet at %v", a, ctx, h.t))
				}
			}
			if tied {
				continue
			}
			// a ping that should have been emitted before the end
			// (a session the application has closed gracefully creates no ping while it waits, in state 'closing',
			// for the client's next poll; the heartbeat deadline still bounds that wait - C12's clause)
			closingBy := func(t time.Duration) bool {
				for _, e := range w.evs(a, "app-close") {
					if e.T <= t {
						return true
					}
				}
				return false
			}
			if outstanding == nil && closeEv == nil && lastAccept+pi < endT && lastAccept+pi < drainAt && !closingBy(lastAccept+pi) {
				l.add("ping-one-interval-after-accept", "missing", fmt.Sprintf("%s [%s]: no ping by %v although the last open/pong was at %v (interval %v)", a, ctx, endT, lastAccept, pi))
			}
			if closeEv != nil && closeEv.S == "ping timeout" {
				switch {
				case outstanding == nil && answered != nil && lastAccept == answered.t+pt && closeEv.T == lastAccept:
					// exact tie: the pong was processed at the very deadline instant; both outcomes are accepted
					w.probe("pong_at_exact_deadline")
				case outstanding == nil && appCloseBefore(w, a, closeEv.Seq):
					// a graceful Close is waiting for the client's next poll: no ping is created in state
					// 'closing' but the heartbeat deadline still bounds the wait (C12's clause, not this one)
					w.probe("ping_timeout_while_closing")
				case outstanding == nil:
					l.add("responsive-peer-never-timed-out", "", fmt.Sprintf("%s [%s]: closed for ping timeout at %v although every ping had been answered (last pong accepted at %v)", a, ctx, closeEv.T, lastAccept))
				case closeEv.T < outstanding.t+pt:
					l.add("not-before-deadline", "", fmt.Sprintf("%s [%s]: ping timeout at %v, before the deadline %v", a, ctx, closeEv.T, outstanding.t+pt))
				case closeEv.T > outstanding.t+pt:
					l.add("at-deadline", "late", fmt.Sprintf("%s [%s]: ping timeout at %v, deadline was %v", a, ctx, closeEv.T, outstanding.t+pt))
				}
			}
			if outstanding != nil && !upgradedSincePing {
				dl := outstanding.t + pt
				if (closeEv == nil && dl < endT) || (closeEv != nil && closeEv.T > dl) {
					l.add("at-deadline", "missed", fmt.Sprintf("%s [%s]: ping of %v unanswered, deadline %v passed but the session was not closed then (closed: %v)", a, ctx, outstanding.t, dl, closeEv != nil))
				}
			}
		} else {
			// revision 3: client pings, server pongs; deadline = last ping (or open) + interval + timeout
			last := conns[0].T
			prevLast := last
			pendingPong := -1
			for i := range hs {
				h := hs[i]
				switch h.kind {
				case "ping-in":
					upgradedBefore := false
					for _, u := range hs[:i] {
						if u.kind == "upgrade" && u.t >= last && u.t <= last+pi+pt {
							upgradedBefore = true // the statement's exclusion: the switch cancelled that deadline
						}
					}
					if h.t > last+pi+pt && !upgradedBefore {
						l.add("v3-late-ping-not-accepted", "", fmt.Sprintf("%s [%s]: ping accepted at %v after the deadline %v", a, ctx, h.t, last+pi+pt))
					}
					pendingPong = i
					prevLast, last = last, h.t
				case "pong-out":
					if pendingPong < 0 {
						l.add("v3-pong-only-for-ping", "", fmt.Sprintf("%s [%s]: pong created at %v without a ping", a, ctx, h.t))
					}
					pendingPong = -1
				case "ping-out":
					l.add("v3-server-never-pings", "", fmt.Sprintf("%s [%s]: revision-3 server created a ping at %v", a, ctx, h.t))
				}
			}
			if pendingPong >= 0 && hs[pendingPong].t >= drainAt {
				pendingPong = -1 // the run ended in the instant this ping was being processed
			}
			if pendingPong >= 0 && closeEv != nil && closeEv.T == hs[pendingPong].t {
				pendingPong = -1 // the session closed in the instant this ping was being processed
			}
			// a ping that arrives at the very instant of the deadline: it may be accepted, the session may be closed,
			// or (the timer had committed to its callback) both - the deadline that counts is the earlier one
			if closeEv != nil && closeEv.S == "ping timeout" && closeEv.T == last && last == prevLast+pi+pt {
				w.probe("v3_ping_at_exact_deadline")
				last = prevLast
			}
			if pendingPong >= 0 && (closeEv == nil || closeEv.Seq > hs[pendingPong].seq+8) {
				l.add("v3-every-ping-answered", "", fmt.Sprintf("%s [%s]: client ping at %v got no pong", a, ctx, hs[pendingPong].t))
			}
			dl := last + pi + pt
			// excluded by the statement: an upgrade completing between the last ping and its deadline cancels the deadline
			upgradedSince := false
			for _, h := range hs {
				if h.kind == "upgrade" && h.t >= last && h.t <= dl {
					upgradedSince = true
				}
			}
			if upgradedSince {
				w.probe("v3_deadline_cancelled_by_upgrade")
			} else if closeEv != nil && closeEv.S == "ping timeout" {
				if closeEv.T != dl {
					l.add("v3-deadline", "", fmt.Sprintf("%s [%s]: ping timeout at %v, expected exactly %v (last ping/open %v + %v + %v)", a, ctx, closeEv.T, dl, last, pi, pt))
				}
			} else if (closeEv == nil && dl < endT) || (closeEv != nil && closeEv.T > dl) {
				l.add("v3-deadline", "missed", fmt.Sprintf("%s [%s]: no ping since %v, deadline %v passed but the session was not closed then", a, ctx, last, dl))
			}
		}
		// wrong-direction heartbeat closes with transport error and has no other effect
		for i, e := range w.Evs {
			if e.Sess != a || e.Kind != "packet" {
				continue
			}
			wrong := (v4 && strings.HasPrefix(e.S, "ping|")) || (!v4 && strings.HasPrefix(e.S, "pong|"))
			if !wrong || readyOf(e.St) != "open" {
				continue
			}
			// the next session event must be the close with transport error
			for _, n := range w.Evs[i+1:] {
				if n.Sess != a || n.St == "" && n.Kind != "close" {
					continue
				}
				if n.Kind == "close" {
					if n.S != "transport error" {
						l.add("wrong-direction-closes", n.S, fmt.Sprintf("%s [%s]: wrong-direction heartbeat closed the session with %q", a, ctx, n.S))
					}
				} else if n.Kind == "heartbeat" || (n.Kind == "packetCreate" && (strings.HasPrefix(n.S, "ping|") || strings.HasPrefix(n.S, "pong|"))) {
					l.add("wrong-direction-no-other-effect", n.Kind, fmt.Sprintf("%s [%s]: wrong-direction heartbeat caused a %s event (%s)", a, ctx, n.Kind, n.S))
				} else {
					continue // an unrelated event of the session (application send, flush ...)
				}
				break
			}
		}
	}
	return l.out
}

// simEnd is the virtual time of the last recorded event.
func simEnd(w *World) time.Duration {
	if len(w.Evs) == 0 {
		return 0
	}
	return w.Evs[len(w.Evs)-1].T
}

// appCloseBefore reports whether the application called Close on the session before event seq.
func appCloseBefore(w *World, a string, seq int) bool {
	for _, e := range w.evs(a, "app-close") {
		if e.Seq < seq {
			return true
		}
	}
	return false
}
