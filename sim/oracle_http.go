package sim

import (
	"fmt"
	"regexp"
	"sort"
	"strconv"
	"strings"

	"verif/sim/ref"
)

var sidInBody = regexp.MustCompile(`\\?"sid\\?":\\?"([^"\\]+)`)

func init() {
	sessionOracles = append(sessionOracles, oracleC16, oracleC17)
}

var digitsRe = regexp.MustCompile(`[0-9]`)

// packetKey renders a decoded packet the way flush events render theirs.
func packetKey(p ref.Packet) string {
	names := []string{"open", "close", "ping", "pong", "message", "upgrade", "noop"}
	n := "?"
	if p.Type >= 0 && p.Type < len(names) {
		n = names[p.Type]
	}
	if len(p.Data) == 0 && !p.Binary {
		return n + "|"
	}
	return n + "|" + kindPrefix(p.Binary) + string(p.Data)
}

func normFlushKey(s string, initial string) string {
	// packets without data are rendered "type|"; a nil reader and an empty buffer are the same on the wire
	if strings.HasSuffix(s, "|t:") {
		return strings.TrimSuffix(s, "t:")
	}
	if strings.HasPrefix(s, "message|t-reader(") && initial != "" {
		return "message|t:" + initial
	}
	return s
}

// oracleC16: every poll response is a well-formed encoding of exactly the packets of its cycle.
func oracleC16(f *sessionFam, w *World, res *Result) []Violation {
	l := &vlist{prop: "C16"}
	o := f.sc.Opts
	sidAlias := map[string]string{}
	for a, s := range w.SockIDs {
		sidAlias[s] = a
	}
	compressionOn := true // the options API has no way to switch http compression off (nil means "default")
	thr := 1024
	if o.CompThreshold >= 0 {
		thr = o.CompThreshold
	}
	type cyc struct {
		pk       []string
		compress bool
		seq      int
	}
	for i := range f.sc.Clients {
		sp := &f.sc.Clients[i]
		a := sp.Name
		if len(sp.Raw) > 0 || sp.Transport != "polling" {
			continue
		}
		ctx := f.sessCtx(a)
		// hand-offs to the polling transport, in order
		var cycles []cyc
		nocomp := map[string]bool{}
		for _, e := range w.evs(a, "app-send") {
			if len(e.P) >= 3 && e.P[2] == "nocompress" {
				nocomp[e.S] = true
			}
		}
		for _, e := range w.evs(a, "srv-flush") { // the server-level event also sees the open packet's hand-off
			if transportOf(e.St) != "polling" {
				continue
			}
			c := cyc{seq: e.Seq}
			for _, p := range e.P {
				k := normFlushKey(p, o.InitialPacket)
				c.pk = append(c.pk, k)
				if !(strings.HasPrefix(k, "message|") && nocomp[strings.TrimPrefix(k, "message|")]) {
					c.compress = true // every packet created by the engine and every default Send asks for compression
				}
			}
			cycles = append(cycles, c)
		}
		ci := 0
		// poll responses of this session in the order the server wrote them
		var rs []*Resp
		for _, r := range w.resps {
			if r.Client != a || r.Method != "GET" || r.Hijacked || r.h3 != nil || r.NWH == 0 || r.Status != 200 {
				continue
			}
			sid, ok := pollingReq(r)
			if !ok || (sid != "" && sidAlias[sid] != a) {
				continue
			}
			rs = append(rs, r)
		}
		sort.SliceStable(rs, func(i, j int) bool { return rs[i].SeqWH < rs[j].SeqWH })
		for _, r := range rs {
			body := r.Body
			ce := r.H.Get("Content-Encoding")
			ae := ""
			if sp.AcceptEnc != "" {
				ae = sp.AcceptEnc
			}
			rctx := ctx
			// Content-Length
			if cl := r.H.Get("Content-Length"); cl != strconv.Itoa(len(r.Body)) {
				l.add("content-length", "", fmt.Sprintf("%s [%s]: poll response #%d Content-Length %q but %d bytes were sent", a, rctx, r.ID, cl, len(r.Body)))
			}
			if ce != "" {
				dec, err := ref.DecodeContent(ce, body)
				if err != nil {
					c := ce
					if _, ok := ref.IsRawDeflate(body); ok && ce == "deflate" {
						c += "/raw-deflate-not-zlib"
					}
					l.add("content-encoding-decodes", c, fmt.Sprintf("%s [%s]: poll response #%d has Content-Encoding %s but the body does not decode under that coding as HTTP defines it: %v", a, rctx, r.ID, ce, err))
					if raw, ok := ref.IsRawDeflate(body); ok {
						dec = raw
					} else {
						continue
					}
				}
				body = dec
				acc, listed := ref.AcceptsCoding(ae, ce)
				if !listed {
					l.add("coding-named-by-request", ce, fmt.Sprintf("%s [%s]: poll response #%d encoded with %s but the request's Accept-Encoding is %q", a, rctx, r.ID, ce, ae))
				} else if !acc {
					w.probe("coding_listed_with_q0")
				}
				if !compressionOn {
					l.add("compression-only-when-enabled", "", fmt.Sprintf("%s: response compressed although http compression is disabled", a))
				}
				if len(body) < thr {
					l.add("compression-threshold", "", fmt.Sprintf("%s [%s]: response of %d bytes compressed, threshold is %d", a, rctx, len(body), thr))
				}
			}
			ctype := r.H.Get("Content-Type")
			var payload []byte = body
			if sp.JSONP {
				idx, lit, pl, err := ref.ParseJSONP(body)
				if err != nil {
					l.add("jsonp-form", "", fmt.Sprintf("%s [%s]: JSONP response #%d is not ___eio[<digits>](<string literal>); : %v (%q)", a, rctx, r.ID, err, clip(string(body), 60)))
					continue
				}
				wantIdx := strings.Join(digitsRe.FindAllString(sp.J, -1), "")
				if idx != wantIdx {
					l.add("jsonp-index", "", fmt.Sprintf("%s: JSONP index %q, request j=%q", a, idx, sp.J))
				}
				if !ref.ScriptSafe(lit) {
					l.add("jsonp-script-safe", "", fmt.Sprintf("%s: JSONP literal is not safe to embed in a script: %q", a, clip(lit, 80)))
				}
				payload = []byte(pl)
			}
			binaryBody := strings.HasPrefix(ctype, "application/octet-stream")
			ps, err := decodeNoJSONP(eioOf(sp), binaryBody, payload)
			if err != nil {
				dctx := ""
				if eioOf(sp) == 3 && binaryBody && ci < len(cycles) {
					// discriminator for a defect of the parser dependency: revision-3 binary-form payload (a batch with a
					// binary packet) that also carries a text packet with non-ASCII characters
					for _, pk := range cycles[ci].pk {
						if strings.HasPrefix(pk, "message|t:") && !isASCII(pk) {
							dctx = "v3-binary-payload-form/non-ascii-text"
						}
					}
				}
				if ci < len(cycles) {
					ci++ // this response was that batch, however it came out
				}
				l.add("payload-decodes", dctx, fmt.Sprintf("%s [%s]: poll response #%d does not decode as a revision-%d payload: %v (%q)", a, rctx, r.ID, eioOf(sp), err, clip(string(payload), 60)))
				continue
			}
			if !binaryBody && !strings.HasPrefix(ctype, "text/") && !strings.Contains(ctype, "javascript") {
				l.add("content-type", ctype, fmt.Sprintf("%s: textual poll body sent with Content-Type %q", a, ctype))
			}
			// match against the cycles
			var got []string
			for _, p := range ps {
				got = append(got, packetKey(p))
			}
			g := got
			if n := len(g); n > 0 && g[n-1] == "close|" {
				g = g[:n-1]
			}
			compress := false
			switch {
			case len(g) == 0:
			case len(g) == 1 && g[0] == "noop|":
			default:
				if ci >= len(cycles) {
					l.add("body-equals-batch", "extra", fmt.Sprintf("%s [%s]: poll response #%d carries %v but no flushed batch is left", a, rctx, r.ID, clipAll(g)))
					continue
				}
				want := cycles[ci]
				ci++
				compress = want.compress
				// the slot of the configured initial packet is judged by C06 (its reader is opaque here)
				if len(g) == len(want.pk) {
					for i := range g {
						if want.pk[i] == "message|t:"+o.InitialPacket && o.InitialPacket != "" && strings.HasPrefix(g[i], "message|") {
							g[i] = want.pk[i]
						}
					}
				}
				if strings.Join(g, "\x00") != strings.Join(want.pk, "\x00") {
					l.add("body-equals-batch", "", fmt.Sprintf("%s [%s]: poll response #%d decodes to %v but the batch handed to the transport (flush event #%d) was %v", a, rctx, r.ID, clipAll(g), want.seq, clipAll(want.pk)))
				}
			}
			if ce != "" && !compress {
				// (the transport's own noop and close packets carry no options and ask for nothing)
				own := ""
				if len(g) == 0 || g[0] == "noop|" {
					own = "transport-own-packets"
				}
				l.add("compression-only-when-requested", own, fmt.Sprintf("%s [%s]: response #%d (%v) compressed although no packet of the batch asked for it", a, rctx, r.ID, clipAll(got)))
			}
			if ce == "" && compress && compressionOn && len(body) >= thr && ae != "" {
				// not required by the statement ("only when"), counted for the evidence
				w.probe("eligible_but_uncompressed")
			}
			if ce != "" {
				w.probe("compressed_response_" + ce)
			}
		}
	}
	return l.out
}

func decodeNoJSONP(eio int, binaryBody bool, body []byte) ([]ref.Packet, error) {
	if eio == 4 {
		return ref.DecodePayloadV4(body)
	}
	return ref.DecodePayloadV3(body, binaryBody)
}

func clipAll(xs []string) []string {
	var o []string
	for _, x := range xs {
		o = append(o, clip(x, 40))
	}
	return o
}

// oracleC17: cookie, initial_headers, headers, CORS.
func oracleC17(f *sessionFam, w *World, res *Result) []Violation {
	l := &vlist{prop: "C17"}
	o := f.sc.Opts
	sidAlias := map[string]string{}
	for a, s := range w.SockIDs {
		sidAlias[s] = a
	}
	// events per request URL+client: initial_headers / headers
	type key struct{ client, url string }
	for _, r := range w.resps {
		if r.Client == "prober" || r.Hijacked || r.h3 != nil || r.NWH == 0 {
			continue
		}
		sp := f.spec(r.Client)
		if sp == nil || len(sp.Raw) > 0 {
			continue
		}
		sid, isPoll := pollingReq(r)
		if !isPoll {
			continue
		}
		isHandshake := sid == "" && r.Status == 200 && r.Method == "GET"
		sc := r.H.Values("Set-Cookie")
		if o.Cookie != nil {
			if isHandshake {
				if len(sc) != 1 {
					l.add("cookie-on-handshake", "", fmt.Sprintf("%s: handshake response carries %d Set-Cookie headers, cookie is configured", r.Client, len(sc)))
				} else {
					name := o.Cookie.Name
					if name == "" {
						name = "io"
					}
					want := name + "=" + w.SockIDs[r.Client]
					if w.SockIDs[r.Client] == "" {
						// the session was never announced (closed while the handshake was still running, e.g. by a
						// shutdown in that instant): the harness does not know its id - take it from the open packet
						// (a JSONP answer carries it inside a quoted string: \"sid\":\"...\")
						if m := sidInBody.FindSubmatch(r.Body); m != nil {
							want = name + "=" + string(m[1])
						}
					}
					if !strings.HasPrefix(sc[0], want+";") && sc[0] != want {
						l.add("cookie-value-is-session-id", "", fmt.Sprintf("%s: Set-Cookie %q, expected it to start with %q (the session id)", r.Client, sc[0], want))
					}
					path := o.Cookie.Path
					if path == "" {
						path = "/"
					}
					if !strings.Contains(sc[0], "Path="+path) {
						l.add("cookie-attributes", "path", fmt.Sprintf("%s: Set-Cookie %q lacks Path=%s", r.Client, sc[0], path))
					}
					if o.Cookie.MaxAge > 0 && !strings.Contains(sc[0], "Max-Age="+strconv.Itoa(o.Cookie.MaxAge)) {
						l.add("cookie-attributes", "max-age", fmt.Sprintf("%s: Set-Cookie %q lacks Max-Age=%d", r.Client, sc[0], o.Cookie.MaxAge))
					}
					if o.Cookie.Secure && !strings.Contains(sc[0], "Secure") {
						l.add("cookie-attributes", "secure", fmt.Sprintf("%s: Set-Cookie %q lacks Secure", r.Client, sc[0]))
					}
				}
			} else if len(sc) > 0 {
				l.add("cookie-only-on-handshake", r.Method, fmt.Sprintf("%s: %s response of an established session carries Set-Cookie %q", r.Client, r.Method, sc[0]))
			}
		} else if len(sc) > 0 {
			l.add("cookie-only-when-configured", "", fmt.Sprintf("%s: Set-Cookie %q without a cookie configuration", r.Client, sc[0]))
		}
		// CORS
		origin := sp.Origin
		acao := r.H.Values("Access-Control-Allow-Origin")
		if o.Cors == nil {
			if len(acao) > 0 {
				l.add("cors-only-when-configured", "", fmt.Sprintf("%s: Access-Control-Allow-Origin %q without a CORS policy", r.Client, acao[0]))
			}
		} else {
			// every response of the engine goes through the CORS middleware first, whatever its status turns out to be
			// (an overlap refused with 400, a data request aborted with 429 by the transport's own close)
			allowed, depends := corsModel(o.Cors, origin)
			if len(acao) > 1 {
				l.add("cors-single-header", "", fmt.Sprintf("%s: %d Access-Control-Allow-Origin headers", r.Client, len(acao)))
			}
			v := ""
			if len(acao) > 0 {
				v = acao[0]
			}
			// (the middleware answers a request it does not allow with the literal value "false", which names nobody)
			if v != "" && v != "*" && v != "false" && v != origin && !(o.Cors.OriginKind == "string" && v == o.Cors.Origin) {
				// "names the request's Origin (or '*')": not somebody else's
				l.add("cors-names-request-origin", o.Cors.OriginKind, fmt.Sprintf("%s: Access-Control-Allow-Origin %q on the response to a request with Origin %q", r.Client, v, origin))
			}
			if (v == "*" || (v == origin && origin != "")) && !allowed {
				l.add("cors-origin-only-when-allowed", o.Cors.OriginKind, fmt.Sprintf("%s: Access-Control-Allow-Origin %q for Origin %q which the policy (%s) does not allow", r.Client, v, origin, o.Cors.OriginKind))
			}
			vary := strings.ToLower(strings.Join(r.H.Values("Vary"), ","))
			hasVary := false
			for _, t := range strings.Split(vary, ",") {
				if strings.TrimSpace(t) == "origin" || strings.TrimSpace(t) == "*" {
					hasVary = true
				}
			}
			if depends && !hasVary {
				l.add("cors-vary-origin", o.Cors.OriginKind, fmt.Sprintf("%s: the allow-origin value depends on the request (policy %s) but Vary lacks Origin (Vary=%q)", r.Client, o.Cors.OriginKind, vary))
			}
			cred := r.H.Get("Access-Control-Allow-Credentials")
			if cred != "" && !o.Cors.Credentials {
				l.add("cors-credentials-only-when-configured", "", fmt.Sprintf("%s: Access-Control-Allow-Credentials %q but credentials are not configured", r.Client, cred))
			}
			if cred == "" && o.Cors.Credentials {
				l.add("cors-credentials-when-configured", "", fmt.Sprintf("%s: credentials configured but the header is missing", r.Client))
			}
		}
	}
	// preflight: answered by the server itself with the configured status, no session created
	if o.Cors != nil {
		for _, e := range w.evs("pf", "c-raw-resp") {
			if len(e.P) < 4 || e.P[0] != "OPTIONS" {
				continue
			}
			if o.Cors.Continue {
				w.probe("preflight_passed_on")
				continue
			}
			want := o.Cors.Status
			if want == 0 {
				want = 204
			}
			if int(e.N) != want {
				l.add("preflight-status", fmt.Sprintf("got-%d", e.N), fmt.Sprintf("preflight answered %d, configured success status %d (body %q)", e.N, want, clip(e.S, 60)))
			}
			if len(e.P) > 2 && e.P[2] == "app" {
				l.add("preflight-answered-by-server", "", "preflight was passed to the application's handler although preflightContinue is off")
			}
		}
		if !o.Cors.Continue {
			if ce := w.evs("pf", "connection_error"); len(ce) > 0 {
				l.add("preflight-answered-by-server", "also-passed-on", fmt.Sprintf("a preflight the server answered itself was also handed to the engine: %d connection_error event(s) (%q)", len(ce), ce[0].S))
			}
		}
		if len(w.evs("pf", "connection")) > 0 {
			l.add("preflight-creates-no-session", "", "a preflight request created a session")
		}
	}
	// initial_headers once per session, on the handshake response; headers once per response
	for i := range f.sc.Clients {
		sp := &f.sc.Clients[i]
		a := sp.Name
		if len(sp.Raw) > 0 || sp.Transport != "polling" {
			continue
		}
		if len(w.evs(a, "connection")) == 0 || len(w.evs(a, "c-handshake-aborted")) > 0 {
			continue // no session, or the client abandoned the handshake request (its response was never sent)
		}
		ih := w.evs(a, "initial_headers")
		if len(ih) != 1 {
			on := ""
			if len(ih) > 1 {
				on = ih[1].S
			}
			l.add("initial-headers-once-per-session", fmt.Sprintf("%d", min(len(ih), 2)), fmt.Sprintf("%s: initial_headers fired %d times for one session (second time on %q)", a, len(ih), clip(on, 60)))
		} else if strings.Contains(ih[0].S, "sid=") {
			l.add("initial-headers-on-handshake", "", fmt.Sprintf("%s: initial_headers fired on %q, not on the handshake response", a, clip(ih[0].S, 60)))
		}
		nResp := 0
		for _, r := range w.resps {
			if r.Client != a || r.Hijacked || r.h3 != nil || r.NWH == 0 || r.Status != 200 {
				continue
			}
			if _, ok := pollingReq(r); ok {
				nResp++
			}
		}
		// a response computed for a request that the client had already abandoned is not a response
		nGone := 0
		for _, r := range w.resps {
			if r.Client == a && (r.Aborted || r.NWH == 0 || r.Status != 200) {
				nGone++
			}
		}
		if h := w.evs(a, "headers"); f.drained && (len(h) < nResp || len(h) > nResp+nGone) {
			l.add("headers-once-per-response", "", fmt.Sprintf("%s: %d successful HTTP responses (+%d abandoned requests) but the headers event fired %d times", a, nResp, nGone, len(h)))
		}
	}
	return l.out
}

// corsModel: is origin allowed by the policy, and does the header value depend on the request?
func corsModel(c *CorsSpec, origin string) (allowed, depends bool) {
	switch c.OriginKind {
	case "star", "nil", "":
		return true, false
	case "string":
		return origin == c.Origin, true
	case "list":
		for _, x := range c.Origins {
			if x == origin {
				return true, true
			}
		}
		return false, true
	case "regexp":
		ok, _ := regexp.MatchString(c.Origin, origin)
		return ok, true
	case "true":
		return true, true
	case "false":
		return false, true
	}
	return false, true
}

func isASCII(s string) bool {
	for i := 0; i < len(s); i++ {
		if s[i] >= 0x80 {
			return false
		}
	}
	return true
}
