package sim

import (
	"encoding/json"
	"fmt"
	"os"
	"reflect"
	"runtime"
	"sort"
	"strings"
	"sync/atomic"
	"testing"
	"testing/synctest"
	"time"
	"unsafe"

	eiolog "github.com/zishang520/engine.io/v2/log"
	"github.com/zishang520/engine.io/v2/simrt"
	"github.com/zishang520/engine.io/v2/utils"
)

func init() {
	if os.Getenv("DEBUG") != "" {
		eiolog.DEBUG = true
	}
	// one seed is one execution whatever GOMAXPROCS the process was started with - except at 1, where
	// klauspost/zstd switches to its synchronous encoder, whose pattern of writes into the (instrumented)
	// response buffer differs and so does the number of yield points passed: found by the determinism
	// self-test. The simulator therefore never runs with fewer than two Ps.
	if runtime.GOMAXPROCS(0) < 2 {
		runtime.GOMAXPROCS(2)
	}
}

// Result is everything one simulated run produced.
type Result struct {
	Outcome   string          `json:"outcome"` // horizon | idle | steps | fail | stop | diverged
	Viol      []Violation     `json:"viol,omitempty"`
	Fail      []simrt.Failure `json:"fail,omitempty"`
	Diverged  string          `json:"diverged,omitempty"`
	Tape      []simrt.Turn    `json:"-"`
	Selects   []int           `json:"-"`
	TraceHash uint64          `json:"traceHash"`
	EventHash uint64          `json:"eventHash"`
	Yields    int             `json:"yields"`
	Preempts  int             `json:"preempts"`
	Steps     int             `json:"steps"`
	VirtualMs int64           `json:"virtualMs"`
	Faults    map[string]int  `json:"faults,omitempty"`
	Probes    map[string]int  `json:"probes,omitempty"`
	States    []string        `json:"states,omitempty"`
	Alive     []string        `json:"alive,omitempty"`
	Evs       []Ev            `json:"-"`
	NEvents   int             `json:"nEvents"`
	Leftover  bool            `json:"leftover,omitempty"`
	LastSite  string          `json:"lastSite,omitempty"`
	Incon     int             `json:"inconclusive,omitempty"`
}

// runner executes a family inside the bubble.
type family interface {
	// setup runs inside the first task; it builds the system and spawns actors.
	setup(w *World)
	// quiescent runs as the ~oracle task at quiescent points.
	quiescent(w *World)
	// finish runs on the test goroutine after the bubble's scheduler stopped:
	// history oracles.
	finish(w *World, res *Result)
	// horizon is the virtual time after which the run is cut.
	horizon() time.Duration
}

var families = map[string]func(sc *Scenario) family{}

// RunScenario executes sc once under src.  keepTape records the schedule.
func RunScenario(t *testing.T, sc *Scenario, src simrt.Source, keepTape bool) (res *Result) {
	res = &Result{}
	pinRandom(sc.Seed)
	resetIDCounter()
	mk := families[sc.Family]
	if mk == nil {
		panic("unknown family " + sc.Family)
	}
	fam := mk(sc)
	defer func() {
		if r := recover(); r != nil {
			if !strings.Contains(fmt.Sprint(r), "deadlock: main bubble goroutine has exited") {
				panic(r)
			}
			res.Leftover = true
		}
	}()
	synctest.Test(t, func(t *testing.T) {
		s := simrt.New(src)
		s.KeepTape = keepTape
		w := newWorld(sc, s)
		if len(sc.HotFuncs) > 0 {
			s.Hot = hotSites(sc.HotFuncs)
		}
		s.OnQuiescent = func() { fam.quiescent(w) }
		s.MaxYields = 3000000
		s.NoPre = depSites()
		s.GoLabel("a-setup", func() { fam.setup(w) })
		horizon := fam.horizon()
		maxSteps := sc.MaxSteps
		if maxSteps == 0 {
			maxSteps = 40000
		}
		res.Outcome = s.Run(horizon, maxSteps)
		res.VirtualMs = int64(s.Elapsed() / time.Millisecond)
		res.Fail = s.Fail
		res.Diverged = s.Diverged
		res.Tape, res.Selects = s.Tape, s.Selects
		res.TraceHash = s.TraceHash
		res.Yields, res.Preempts, res.Steps = s.Yields, s.Preempts, s.Steps
		res.Alive = s.AliveTasks()
		if os.Getenv("VERIF_STACKS") != "" && len(res.Alive) > 0 {
			// debugging aid: where are the tasks that are still alive? (all goroutines of the process)
			buf := make([]byte, 1<<20)
			buf = buf[:runtime.Stack(buf, true)]
			fmt.Printf("LOCK-HOLDERS %v\nSTACKS\n%s\n", s.LockHolders(), buf)
		}
		res.LastSite = simrt.SiteString(s.LastSite)
		res.Evs = w.Evs
		res.NEvents = len(w.Evs)
		if s.Stalls > 0 {
			w.mu.Lock()
			w.Faults["stalled-task"] += s.Stalls
			w.mu.Unlock()
		}
		res.Faults, res.Probes = w.Faults, w.Probes
		res.States = sortedKeys(w.States)
		res.Viol = append(res.Viol, w.Viol...)
		fam.finish(w, res)
		res.EventHash = hashEvents(w.Evs, w.SockIDs)
	})
	return res
}

// hashEvents hashes the history with session ids replaced by client aliases:
// ids embed a process-wide sequence number, so they differ between processes
// although the execution is the same.
// resetIDCounter zeroes the process-global sequence number that
// utils.Base64Id mixes into every session id, so that the same execution
// produces the same ids in every process.
func resetIDCounter() {
	f := reflect.ValueOf(utils.Base64Id()).Elem().FieldByName("sequenceNumber")
	if f.IsValid() && f.CanAddr() {
		if f.Type().Size() == 8 {
			(*atomic.Uint64)(unsafe.Pointer(f.UnsafeAddr())).Store(0)
		}
	}
}

func hashEvents(evs []Ev, sids map[string]string) uint64 {
	h := uint64(14695981039346656037)
	var pairs []string
	for _, a := range sortedKeys(sids) {
		if sids[a] != "" {
			pairs = append(pairs, sids[a], "<"+a+">")
		}
	}
	rep := strings.NewReplacer(pairs...)
	mix := func(s string) {
		if len(pairs) > 0 && len(s) >= 20 {
			s = rep.Replace(s)
		}
		for i := 0; i < len(s); i++ {
			h ^= uint64(s[i])
			h *= 1099511628211
		}
		h ^= 0xff
		h *= 1099511628211
	}
	for _, e := range evs {
		mix(e.Kind)
		mix(e.Sess)
		mix(e.S)
		mix(e.St)
		h ^= uint64(e.N)
		h *= 1099511628211
		h ^= uint64(e.T)
		h *= 1099511628211
		for _, p := range e.P {
			mix(p)
		}
	}
	return h
}

var depSitesCache []bool

// depSites marks the sites inside vendored dependencies.
func depSites() []bool {
	if depSitesCache == nil {
		depSitesCache = make([]bool, len(simrt.SiteTable))
		for i, s := range simrt.SiteTable {
			depSitesCache[i] = strings.HasPrefix(s, "_deps/")
		}
	}
	return depSitesCache
}

// hotSites marks the sites of the named functions.
func hotSites(funcs []string) []bool {
	want := map[string]bool{}
	for _, f := range funcs {
		want[f] = true
	}
	hot := make([]bool, len(simrt.SiteTable))
	for i, s := range simrt.SiteTable {
		f := strings.Split(s, "\t")
		if len(f) >= 2 && want[f[1]] {
			hot[i] = true
		}
	}
	return hot
}

// failuresAsViolations turns runtime failures (panics, self-deadlocks) into
// violations of the property they belong to.
func failureViolations(res *Result, panicProp, deadlockProp string) {
	for _, f := range res.Fail {
		switch f.Kind {
		case "panic":
			res.Viol = append(res.Viol, Violation{Prop: panicProp, Rule: "no-panic", Sig: "no-panic/" + panicSig(f), Msg: fmt.Sprintf("task %s panicked: %s\n%s", f.Task, f.Msg, trimStack(f.Stack))})
		case "self-deadlock":
			res.Viol = append(res.Viol, Violation{Prop: deadlockProp, Rule: "no-self-deadlock", Sig: "no-self-deadlock/" + deadlockSig(f), Msg: fmt.Sprintf("task %s: %s\n%s", f.Task, f.Msg, trimStack(f.Stack))})
			if strings.Contains(f.Stack, "socket).Close(") || strings.Contains(f.Stack, "socket).closeTransport(") {
				// a Close call that waits for a lock its own goroutine holds never closes the session (C12)
				res.Viol = append(res.Viol, Violation{Prop: "C12", Rule: "close-completes", Sig: "close-completes/self-deadlock/" + deadlockSig(f), Msg: fmt.Sprintf("task %s: a Close call deadlocked on itself: %s\n%s", f.Task, f.Msg, trimStack(f.Stack))})
			}
		}
	}
}

// panicSig classifies a panic by its message class (not by file:line).
func panicSig(f simrt.Failure) string {
	c := panicClass(f)
	if fn := topRepoFunc(f.Stack); fn != "" {
		return c + "/in-" + fn
	}
	return c
}

// topRepoFunc names the innermost function of the repository on the panicking stack
// (closures are attributed to their enclosing function).
func topRepoFunc(stack string) string {
	for _, l := range strings.Split(stack, "\n") {
		if !strings.HasPrefix(l, "github.com/zishang520/engine.io/v2/") || strings.Contains(l, "/simrt.") {
			continue
		}
		l = strings.TrimPrefix(l, "github.com/zishang520/engine.io/v2/")
		if i := strings.Index(l, "("); i > 0 && !strings.HasPrefix(l[i:], "(*") {
			l = l[:i]
		}
		// "engine.(*socket).MaybeUpgrade.func3(...)" -> "socket.MaybeUpgrade"
		l = strings.NewReplacer("(*", "", ")", "").Replace(l)
		if i := strings.Index(l, "("); i > 0 {
			l = l[:i]
		}
		parts := strings.Split(l, ".")
		var keep []string
		for _, p := range parts[1:] {
			if strings.HasPrefix(p, "func") || strings.HasPrefix(p, "gowrap") || strings.HasPrefix(p, "Go") && len(p) <= 3 || p == "" || strings.HasPrefix(p, "[") {
				break
			}
			keep = append(keep, p)
		}
		if len(keep) > 0 {
			return strings.Join(keep, ".")
		}
	}
	return ""
}

func panicClass(f simrt.Failure) string {
	m := f.Msg
	switch {
	case strings.Contains(m, "nil pointer"):
		return "nil-deref"
	case strings.Contains(m, "index out of range"), strings.Contains(m, "slice bounds"):
		return "bounds"
	case strings.Contains(m, "close of closed channel"):
		return "double-close"
	case strings.Contains(m, "concurrent write"):
		return "concurrent-write"
	case strings.Contains(m, "interface conversion"):
		return "type-assertion"
	}
	if len(m) > 40 {
		m = m[:40]
	}
	return m
}

func deadlockSig(f simrt.Failure) string {
	// like panics, a self-deadlock carries the innermost repository function: that is where the task asked again
	// for the lock it holds (flush re-entered through Send is the known one; any other place is a different defect)
	c := "mutex"
	if strings.Contains(f.Msg, "Once") {
		c = "once"
	}
	// (which way the task came back: a send callback runs from the transport's drain, outside flush, on the writer
	// goroutine - unless the transport writes on the caller's goroutine)
	via := ""
	if strings.Contains(f.Stack, ").onDrain") {
		via = "/via-send-callback"
	}
	if fn := topRepoFunc(f.Stack); fn != "" {
		return c + "/in-" + fn + via
	}
	return c + via
}

func trimStack(s string) string {
	lines := strings.Split(s, "\n")
	var keep []string
	for i := 0; i < len(lines); i++ {
		l := lines[i]
		if strings.Contains(l, "simrt.") || strings.Contains(l, "runtime/") || strings.Contains(l, "/simrt/") || strings.HasPrefix(l, "goroutine ") {
			continue
		}
		keep = append(keep, l)
		if len(keep) > 24 {
			break
		}
	}
	return strings.Join(keep, "\n")
}

// ---- replay files --------------------------------------------------------------

// ReplayFile is what a violation is reported as.
type ReplayFile struct {
	Property  string       `json:"property"`
	Signature string       `json:"signature"`
	Message   string       `json:"message"`
	VerifSeed int64        `json:"verif_seed"`
	RunIndex  int64        `json:"run_index"`
	Scenario  *Scenario    `json:"scenario"`
	Tape      []simrt.Turn `json:"tape"`
	Selects   []int        `json:"selects"`
	TraceHash uint64       `json:"trace_hash"`
	EventHash uint64       `json:"event_hash"`
	Steps     int          `json:"steps"`
	Minimised string       `json:"minimised,omitempty"`
	Spin      bool         `json:"spin,omitempty"` // the run never ended (no tape): replay = run again under the watchdog
	// Sequence: the violation depends on what earlier runs of the same process left behind in the code under
	// test (package-level state shared between servers or sessions), so one scenario alone does not show it:
	// replay = execute this worker's runs 0..RunIndex again, in a fresh process, under their own seeds
	Sequence *SeqReplay `json:"sequence,omitempty"`
	History  []string   `json:"history_excerpt,omitempty"`
}

// SeqReplay identifies a worker's deterministic sequence of runs.
type SeqReplay struct {
	Worker   int    `json:"worker"`
	NWorkers int    `json:"nworkers"`
	Tier     string `json:"tier"`
}

func (r *ReplayFile) JSON() []byte {
	b, _ := json.MarshalIndent(r, "", " ")
	return b
}

// violationsOf filters by property and returns them sorted by signature.
func violationsOf(res *Result, prop string) []Violation {
	var out []Violation
	for _, v := range res.Viol {
		if v.Prop == prop {
			out = append(out, v)
		}
	}
	sort.SliceStable(out, func(i, j int) bool { return out[i].Sig < out[j].Sig })
	return out
}

func hasSig(res *Result, prop, sig string) *Violation {
	for i := range res.Viol {
		if res.Viol[i].Prop == prop && res.Viol[i].Sig == sig {
			return &res.Viol[i]
		}
	}
	return nil
}

// excerpt renders the tail of the history around a violation.
func excerpt(evs []Ev, sess string, max int) []string {
	var out []string
	for _, e := range evs {
		if sess != "" && e.Sess != sess && e.Sess != "" {
			continue
		}
		s := e.S
		if len(s) > 70 {
			s = s[:70] + fmt.Sprintf("...(%d)", len(e.S))
		}
		out = append(out, fmt.Sprintf("#%d @%v %s %s %q n=%d st=%s %v", e.Seq, e.T, e.Sess, e.Kind, s, e.N, e.St, trimP(e.P)))
	}
	if len(out) > max {
		out = out[len(out)-max:]
	}
	return out
}

func trimP(p []string) []string {
	var o []string
	for _, x := range p {
		if len(x) > 40 {
			x = x[:40] + "..."
		}
		o = append(o, x)
	}
	return o
}
