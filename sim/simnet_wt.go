package sim

import "net/http"

// WebTransport fakes: placeholder until the http3/quic interface fakes are in.

func (c *Client) openWT(sid string) (streamConn, *Resp) { return nil, nil }

func (c *Client) openWTRaw(first []byte) (streamConn, *Resp) { return nil, nil }

func (w *World) h3Writer(base *respWriter, r *Resp) http.ResponseWriter { return base }
