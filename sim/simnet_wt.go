package sim

// WebTransport without QUIC: in-memory fakes of the quic-go / http3
// *interfaces* that webtransport-go needs on the server side
// (http3.Hijacker, http3.HTTPStreamer, http3.Connection, http3.Stream,
// quic.Stream).  The real webtransport.Server.Upgrade, Session, AcceptStream,
// capsule handling and the repository's OnWebTransportSession run on top.
//
// Model: one QUIC connection per WebTransport session (browsers do not pool
// by default).  CONNECT request stream = stream 0 (so the session id is 0),
// the client's bidirectional data stream = stream 4; it is injected through
// the exported H3.StreamHijacker exactly as the http3 server would do after
// reading frame type 0x41.
//
// Concurrency rules (see simrt): fake methods may be called by managed tasks
// and by webtransport-go's own goroutines (Session.handleConn, the capsule
// reader).  All waits go through half.read (simrt.Block for tasks, a durable
// channel wait for the others), critical sections are a few statements, and
// every state change that can wake somebody is followed by simrt.Settle()
// when the caller is a task, so that the woken goroutine has run to its next
// blocking point before the caller goes on.

import (
	"context"
	"encoding/binary"
	"errors"
	"fmt"
	"io"
	"net"
	"net/http"
	"sync"
	"time"

	"github.com/quic-go/quic-go"
	"github.com/quic-go/quic-go/http3"
	"github.com/quic-go/quic-go/quicvarint"
	"github.com/zishang520/engine.io/v2/simrt"
	"github.com/zishang520/engine.io/v2/types"
	webtrans "github.com/zishang520/engine.io/v2/webtransport"
	"github.com/zishang520/webtransport-go"
	"verif/sim/ref"
)

const (
	wtFrameType                   = 0x41   // WEBTRANSPORT_STREAM signal value
	wtCloseSessionCapsule         = 0x2843 // CLOSE_WEBTRANSPORT_SESSION
	wtSettingsEnable              = 0x2b603742
	wtAppErrorZero                = quic.StreamErrorCode(0x52e4a40fa8db) // WebTransport application error 0 mapped into the HTTP/3 space
	h3NoError                     = 0x100
	h3RequestCancelled            = 0x10c
	wtLocalAddr           simAddr = "10.0.0.1:443"
)

// ---- per-World state -----------------------------------------------------------

// wtWorld is the WebTransport side of one World: the application's
// *webtransport.Server plus every fake connection ever opened.
type wtWorld struct {
	w       *World
	wts     *webtransport.Server
	initErr error
	nConn   uint64
	conns   []*wtConn
}

// Only one simulation is active per process (simrt has one active scheduler),
// so one slot is enough; a new World replaces the previous one, which keeps
// dead Worlds collectable without any hook in the other files.
var wtReg struct {
	mu  sync.Mutex
	cur *wtWorld
}

func (w *World) wtLookup() *wtWorld {
	wtReg.mu.Lock()
	defer wtReg.mu.Unlock()
	if wtReg.cur != nil && wtReg.cur.w == w {
		return wtReg.cur
	}
	return nil
}

// wtState returns the World's webtransport.Server, creating it on first use.
// It must run inside the bubble (it creates contexts).
func (w *World) wtState() *wtWorld {
	wtReg.mu.Lock()
	defer wtReg.mu.Unlock()
	if wtReg.cur != nil && wtReg.cur.w == w {
		return wtReg.cur
	}
	// what types.HttpServer.webtransportServer builds, minus address and handler
	st := &wtWorld{w: w, wts: &webtransport.Server{CheckOrigin: func(*http.Request) bool { return true }}}
	// initialize() is unexported: Serve runs it and then fails at once for lack
	// of a TLS configuration, before anything is listened on or spawned.
	st.initErr = st.wts.Serve(nil)
	if st.wts.H3.StreamHijacker == nil {
		panic(fmt.Sprintf("sim: webtransport.Server did not initialise (Serve: %v)", st.initErr))
	}
	wtReg.cur = st
	return st
}

// closeWT ends everything WebTransport of this World: sessions whose client
// never closed them, then the webtransport.Server.  It must be called from a
// task (it parks); safe to call twice.
func (w *World) closeWT() {
	st := w.wtLookup()
	if st == nil {
		return
	}
	for _, cn := range st.conns {
		if cn.client != nil {
			cn.client.close()
		} else {
			cn.clientCloseConn()
		}
	}
	simrt.Settle()
	st.wts.Close()
	wtReg.mu.Lock()
	if wtReg.cur == st {
		wtReg.cur = nil
	}
	wtReg.mu.Unlock()
}

// ---- fake QUIC connection ------------------------------------------------------

// wtConn is http3.Connection for one client connection.
type wtConn struct {
	st       *wtWorld
	c        *Client
	tid      quic.ConnectionTracingID
	ctx      context.Context
	cancel   context.CancelFunc
	settings chan struct{}
	req      *wtStream // CONNECT stream (id 0)
	bidi     *wtStream // client's data stream (id 4), nil until opened
	client   *wtClient
	remote   simAddr

	mu       sync.Mutex
	hijacked bool // HTTPStream() was called
	gone     bool // connection closed
}

func (st *wtWorld) newConn(c *Client) *wtConn {
	st.nConn++
	cn := &wtConn{st: st, c: c, tid: quic.ConnectionTracingID(st.nConn), settings: make(chan struct{}),
		remote: simAddr(c.w.clientAddr(c.name))}
	close(cn.settings) // the client's SETTINGS arrived before its first request
	cn.ctx, cn.cancel = context.WithCancel(context.WithValue(context.Background(), quic.ConnectionTracingKey, cn.tid))
	cn.req = cn.newStream(0)
	st.conns = append(st.conns, cn)
	return cn
}

func (cn *wtConn) newStream(id quic.StreamID) *wtStream {
	s := &wtStream{id: id, conn: cn, in: newHalf(), out: newHalf()}
	s.ctx, s.cancel = context.WithCancel(cn.ctx)
	return s
}

func (cn *wtConn) isHijacked() bool {
	cn.mu.Lock()
	defer cn.mu.Unlock()
	return cn.hijacked
}

var errWTNoServerStreams = errors.New("sim: server-initiated streams are not modelled")

func (cn *wtConn) OpenStream() (quic.Stream, error) { return nil, errWTNoServerStreams }
func (cn *wtConn) OpenStreamSync(context.Context) (quic.Stream, error) {
	return nil, errWTNoServerStreams
}
func (cn *wtConn) OpenUniStream() (quic.SendStream, error) { return nil, errWTNoServerStreams }
func (cn *wtConn) OpenUniStreamSync(context.Context) (quic.SendStream, error) {
	return nil, errWTNoServerStreams
}
func (cn *wtConn) LocalAddr() net.Addr      { return wtLocalAddr }
func (cn *wtConn) RemoteAddr() net.Addr     { return cn.remote }
func (cn *wtConn) Context() context.Context { return cn.ctx }
func (cn *wtConn) ConnectionState() quic.ConnectionState {
	return quic.ConnectionState{SupportsDatagrams: true, Version: quic.Version1}
}
func (cn *wtConn) ReceivedSettings() <-chan struct{} { return cn.settings }
func (cn *wtConn) Settings() *http3.Settings {
	return &http3.Settings{EnableDatagrams: true, EnableExtendedConnect: true, Other: map[uint64]uint64{wtSettingsEnable: 1}}
}

// CloseWithError is the server closing the whole connection.
func (cn *wtConn) CloseWithError(code quic.ApplicationErrorCode, msg string) error {
	cn.shutdown(&quic.ApplicationError{ErrorCode: code, ErrorMessage: msg, Remote: false},
		&quic.ApplicationError{ErrorCode: code, ErrorMessage: msg, Remote: true})
	simrt.Settle()
	return nil
}

// clientCloseConn is the client closing (or losing) the connection.
func (cn *wtConn) clientCloseConn() {
	cn.shutdown(&quic.ApplicationError{ErrorCode: h3NoError, Remote: true},
		&quic.ApplicationError{ErrorCode: h3NoError, Remote: false})
}

// shutdown ends every stream: srvErr is what the server's pending and future
// operations return, cliErr what the client's do.  Earlier errors and EOFs win.
func (cn *wtConn) shutdown(srvErr, cliErr error) {
	cn.mu.Lock()
	if cn.gone {
		cn.mu.Unlock()
		return
	}
	cn.gone = true
	strs := []*wtStream{cn.req, cn.bidi}
	cn.mu.Unlock()
	for _, s := range strs {
		if s == nil {
			continue
		}
		s.in.wtFailRead(srvErr, false, false)
		s.in.wtFailWrite(cliErr)
		s.out.wtFailRead(cliErr, true, false)
		s.out.wtFailWrite(srvErr)
	}
	cn.cancel()
}

// ---- half helpers (first error wins) ------------------------------------------------

// wtFailRead makes the reader of h fail with err.  keepData: the reader first
// drains what was written before.  afterEOF: also replace a pending EOF.
func (h *half) wtFailRead(err error, keepData, afterEOF bool) {
	h.mu.Lock()
	defer h.mu.Unlock()
	if h.rerr != nil {
		return
	}
	if h.closed && !afterEOF && (keepData || len(h.buf) == 0) {
		return // the reader gets (the data and) the EOF that was there first
	}
	if keepData && len(h.buf) > 0 {
		if h.failAt >= 0 {
			return
		}
		h.failAt, h.failErr = h.total, err
	} else {
		h.rerr = err
		h.buf = nil
	}
	h.signal()
}

func (h *half) wtFailWrite(err error) {
	h.mu.Lock()
	defer h.mu.Unlock()
	if h.werr != nil {
		return
	}
	h.werr = err
	h.signal()
}

// wtFin is a FIN from the writer (no-op once the write side failed).
func (h *half) wtFin() bool {
	h.mu.Lock()
	defer h.mu.Unlock()
	if h.werr != nil || h.closed {
		return false
	}
	h.closed = true
	h.signal()
	return true
}

// wtWriteState samples (write side closed, write error).
func (h *half) wtWriteState() (closed bool, werr error) {
	h.mu.Lock()
	defer h.mu.Unlock()
	return h.closed, h.werr
}

func (h *half) wtReadErr() error {
	h.mu.Lock()
	defer h.mu.Unlock()
	return h.rerr
}

// ---- fake QUIC / HTTP/3 stream ---------------------------------------------------

// wtStream is quic.Stream and http3.Stream as the server sees it.
type wtStream struct {
	id     quic.StreamID
	conn   *wtConn
	in     *half // client -> server
	out    *half // server -> client
	ctx    context.Context
	cancel context.CancelFunc
}

var _ http3.Stream = (*wtStream)(nil)
var _ http3.Connection = (*wtConn)(nil)

func (s *wtStream) StreamID() quic.StreamID    { return s.id }
func (s *wtStream) Context() context.Context   { return s.ctx }
func (s *wtStream) Read(b []byte) (int, error) { return s.in.read(b) }

func (s *wtStream) Write(b []byte) (int, error) {
	if closed, werr := s.out.wtWriteState(); closed && werr == nil {
		return 0, fmt.Errorf("write on closed stream %d", s.id)
	}
	return s.out.write(b)
}

// Close closes the send direction (FIN).
func (s *wtStream) Close() error {
	if _, werr := s.out.wtWriteState(); werr != nil {
		return fmt.Errorf("close called for canceled stream %d", s.id)
	}
	s.out.wtFin()
	s.cancel()
	simrt.Settle()
	return nil
}

// CancelRead: pending and future reads fail, buffered data is dropped, the
// peer is told to stop sending.
func (s *wtStream) CancelRead(code quic.StreamErrorCode) {
	s.in.wtFailRead(&quic.StreamError{StreamID: s.id, ErrorCode: code, Remote: false}, false, false)
	s.in.wtFailWrite(&quic.StreamError{StreamID: s.id, ErrorCode: code, Remote: true})
	simrt.Settle()
}

// CancelWrite resets the send direction: the peer gets what was already
// written (our network delivers instantly) and then the reset.
func (s *wtStream) CancelWrite(code quic.StreamErrorCode) {
	if closed, werr := s.out.wtWriteState(); !closed && werr == nil {
		s.out.wtFailWrite(&quic.StreamError{StreamID: s.id, ErrorCode: code, Remote: false})
		s.out.wtFailRead(&quic.StreamError{StreamID: s.id, ErrorCode: code, Remote: true}, true, false)
	}
	s.cancel()
	simrt.Settle()
}

func (s *wtStream) SetDeadline(time.Time) error      { return nil }
func (s *wtStream) SetReadDeadline(time.Time) error  { return nil }
func (s *wtStream) SetWriteDeadline(time.Time) error { return nil }

func (s *wtStream) SendDatagram([]byte) error { return nil }
func (s *wtStream) ReceiveDatagram(ctx context.Context) ([]byte, error) {
	select {
	case <-ctx.Done():
		return nil, ctx.Err()
	case <-s.ctx.Done():
		return nil, context.Cause(s.ctx)
	}
}

// clientReset is RESET_STREAM + STOP_SENDING from the client.
func (s *wtStream) clientReset(code quic.StreamErrorCode) {
	s.in.wtFailRead(&quic.StreamError{StreamID: s.id, ErrorCode: code, Remote: true}, false, true)
	s.in.wtFailWrite(&quic.StreamError{StreamID: s.id, ErrorCode: code, Remote: false})
	s.out.wtFailWrite(&quic.StreamError{StreamID: s.id, ErrorCode: code, Remote: true})
	s.out.wtFailRead(&quic.StreamError{StreamID: s.id, ErrorCode: code, Remote: false}, false, true)
	s.cancel() // the send side's context ends when the peer stops reading
}

// ---- response writer ----------------------------------------------------------------

// h3RespWriter is the recording response writer of a request that arrived
// over HTTP/3.
type h3RespWriter struct {
	*respWriter
	conn *wtConn
}

func (w *h3RespWriter) Connection() http3.Connection { return w.conn }
func (w *h3RespWriter) HTTPStream() http3.Stream {
	w.r.Hijacked = true
	w.conn.mu.Lock()
	w.conn.hijacked = true
	w.conn.mu.Unlock()
	return w.conn.req
}

var _ http3.Hijacker = (*h3RespWriter)(nil)
var _ http3.HTTPStreamer = (*h3RespWriter)(nil)
var _ http.Flusher = (*h3RespWriter)(nil)

func (w *World) h3Writer(base *respWriter, r *Resp) http.ResponseWriter {
	cn, ok := r.h3.(*wtConn)
	if !ok {
		return base
	}
	return &h3RespWriter{respWriter: base, conn: cn}
}

// handler is the application's routing as in the README (section E).
func (st *wtWorld) handler(cn *wtConn) http.Handler {
	return http.HandlerFunc(func(rw http.ResponseWriter, r *http.Request) {
		// http3 ties the request context to the connection and to the send side
		// of the request stream, not to the return of the handler
		r = r.WithContext(cn.req.ctx)
		if webtrans.IsWebTransportUpgrade(r) {
			st.w.Srv.OnWebTransportSession(types.NewHttpContext(rw, r), st.wts)
		} else {
			st.w.H.ServeHTTP(rw, r)
		}
		if !cn.isHijacked() {
			// the http3 server finishes the response itself
			cn.req.CancelRead(h3NoError)
			cn.req.Close()
		}
	})
}

// ---- client -----------------------------------------------------------------------------

// wtClient is the client end of one WebTransport session.
type wtClient struct {
	c        *Client
	conn     *wtConn
	rbuf     []byte      // undecoded bytes of the data stream
	q        []ref.WTMsg // decoded, not yet returned
	cbuf     []byte      // undecoded bytes of the CONNECT stream
	done     error
	closed   bool // closed or reset by the client
	sessSeen bool // the end of the session was observed (and recorded)
	sessCode uint32
	sessMsg  string
	sessHow  string
	NFrames  int
}

func (c *Client) openWT(sid string) (streamConn, *Resp) {
	data := []byte(nil)
	if sid != "" {
		data = []byte(`{"sid":"` + sid + `"}`)
	}
	pk, bin := ref.EncodePacket(ref.Packet{Type: tOpen, Data: data}, 4, true)
	s, r := c.wtOpen(ref.AppendWTFrame(nil, ref.WTMsg{Binary: bin, Data: pk}))
	if s == nil {
		return nil, r
	}
	return s, r
}

func (c *Client) openWTRaw(first []byte) (streamConn, *Resp) {
	s, r := c.wtOpen(first)
	if s == nil {
		return nil, r
	}
	return s, r
}

var _ rawConn = (*wtClient)(nil)

// wtOpen establishes a session: CONNECT, then one bidirectional stream that
// starts with the session id and first.
func (c *Client) wtOpen(first []byte) (*wtClient, *Resp) {
	st := c.w.wtState()
	cn := st.newConn(c)
	h := c.hdr()
	h["Sec-Webtransport-Http3-Draft02"] = "1"
	c.lat()
	req, resp := c.w.newRequest(c.name, ReqSpec{Method: "CONNECT", Proto: "webtransport", Path: c.path(),
		Query: c.query("webtransport"), Hdr: h, H3: cn})
	req.ProtoMajor, req.ProtoMinor = 3, 0
	hd := st.handler(cn)
	c.spawn("wtreq", func() { c.w.serveReq(hd, req, resp) })
	// the response headers reach the client when the server flushed them
	// (Upgrade) or when the handler is done (refusal)
	simrt.Block(func() bool { return resp.Returned || cn.isHijacked() })
	c.lat()
	if !cn.isHijacked() || resp.Status != http.StatusOK {
		simrt.Block(func() bool { return resp.Returned })
		cn.clientCloseConn()
		simrt.Settle()
		return nil, resp
	}
	s := &wtClient{c: c, conn: cn}
	cn.client = s
	bidi := cn.newStream(4)
	if len(c.sp.Frag) > 0 {
		bidi.in.frag = c.sp.Frag
	}
	bidi.in.onFault = c.w.fault
	cn.mu.Lock()
	cn.bidi = bidi
	cn.mu.Unlock()
	b := quicvarint.Append(nil, uint64(cn.req.id)) // session id = id of the CONNECT stream
	b = append(b, first...)
	bidi.in.write(b)
	// the http3 server has read frame type 0x41 and hands the stream over
	ok, err := st.wts.H3.StreamHijacker(http3.FrameType(wtFrameType), cn.tid, bidi, nil)
	simrt.Settle()
	if !ok || err != nil {
		c.rec("c-wt-stream-not-hijacked", fmt.Sprint(err), 0)
		s.close()
		return nil, resp
	}
	if bidi.in.wtReadErr() != nil {
		// the session was already closed: the server refused the stream
		s.pollSession()
		c.rec("c-wt-stream-refused", "", 0)
		s.close()
		return nil, resp
	}
	return s, resp
}

func (s *wtClient) kind() string { return "webtransport" }

// inHalf is the client->server direction of the data stream (fault plans set
// frag / failAt / failErr on it before traffic flows).
func (s *wtClient) inHalf() *half { return s.conn.bidi.in }

func (s *wtClient) sendPacket(p ref.Packet) error {
	var data []byte
	var bin bool
	if p.Type == 9 { // garbage
		data, bin = append([]byte("9"), p.Data...), false
	} else {
		data, bin = ref.EncodePacket(p, 4, true)
	}
	return s.sendRaw(ref.AppendWTFrame(nil, ref.WTMsg{Binary: bin, Data: data}))
}

func (s *wtClient) sendRaw(b []byte) error {
	if s.closed {
		return errors.New("webtransport: session closed by client")
	}
	_, err := s.conn.bidi.in.write(b)
	simrt.Settle()
	return err
}

// pollSession consumes what the server put on the CONNECT stream so far
// (never blocks) and records the end of the session once.
func (s *wtClient) pollSession() {
	if s.sessSeen {
		return
	}
	h := s.conn.req.out
	var ended error
	var tmp [512]byte
	for h.readable() {
		n, err := h.read(tmp[:])
		s.cbuf = append(s.cbuf, tmp[:n]...)
		if err != nil {
			ended = err
			break
		}
	}
	for {
		typ, n1, err := quicvarint.Parse(s.cbuf)
		if err != nil {
			break
		}
		ln, n2, err := quicvarint.Parse(s.cbuf[n1:])
		if err != nil || uint64(len(s.cbuf)-n1-n2) < ln {
			break
		}
		val := s.cbuf[n1+n2 : n1+n2+int(ln)]
		s.cbuf = s.cbuf[n1+n2+int(ln):]
		if typ == wtCloseSessionCapsule && len(val) >= 4 {
			s.sessSeen, s.sessHow = true, "capsule"
			s.sessCode, s.sessMsg = binary.BigEndian.Uint32(val), string(val[4:])
			break
		}
		s.c.rec("c-wt-capsule", fmt.Sprintf("type=%#x len=%d", typ, ln), 0)
	}
	if !s.sessSeen && ended != nil {
		s.sessSeen, s.sessHow = true, "reset"
		if errors.Is(ended, io.EOF) {
			s.sessHow = "fin"
		}
	}
	if s.sessSeen {
		s.c.w.recx(Ev{Sess: s.c.name, Kind: "c-wt-session-closed", N: int64(s.sessCode), S: s.sessMsg, P: []string{s.sessHow}})
	}
}

func (s *wtClient) recvPacket() (ref.Packet, error) {
	bo, ro := s.conn.bidi.out, s.conn.req.out
	var tmp [4096]byte
	for {
		if len(s.q) > 0 {
			m := s.q[0]
			s.q = s.q[1:]
			p, err := ref.DecodePacket(m.Data, m.Binary, 4)
			if err != nil {
				s.c.rec("c-undecodable-frame", err.Error(), 0)
				return ref.Packet{}, err
			}
			return p, nil
		}
		if s.done != nil {
			return ref.Packet{}, s.done
		}
		simrt.Block(func() bool { return s.closed || bo.readable() || (!s.sessSeen && ro.readable()) })
		if s.closed {
			s.done = errors.New("webtransport: session closed by client")
			continue
		}
		if bo.readable() {
			n, err := bo.read(tmp[:])
			if n > 0 {
				s.rbuf = append(s.rbuf, tmp[:n]...)
				msgs, rest, derr := ref.DecodeWTStream(s.rbuf)
				s.rbuf = append([]byte(nil), rest...)
				for _, m := range msgs {
					s.NFrames++
					s.c.w.recx(Ev{Sess: s.c.name, Kind: "c-wt-frame", N: int64(len(m.Data)), S: fmt.Sprintf("binary=%v", m.Binary)})
				}
				s.q = append(s.q, msgs...)
				if derr != nil {
					s.done = derr
				}
				continue
			}
			if err != nil {
				s.pollSession()
				s.done = fmt.Errorf("webtransport: stream ended: %v%s", err, s.sessInfo())
			}
			continue
		}
		s.pollSession()
		if s.sessSeen {
			s.done = fmt.Errorf("webtransport: session ended%s", s.sessInfo())
		}
	}
}

func (s *wtClient) sessInfo() string {
	if !s.sessSeen {
		return ""
	}
	return fmt.Sprintf(" (session closed by server: %s code=%d msg=%q)", s.sessHow, s.sessCode, s.sessMsg)
}

// wtResched is a scheduling point between two steps of a client action that
// are separate packets on a real network: the caller parks as ready, so the
// policy decides who runs next (under fifo: whoever has waited longest, e.g.
// the server's reader of what was just sent).
func wtResched() { simrt.Block(func() bool { return true }) }

// close is the client closing the session in an orderly way: FIN on the data
// stream, CLOSE_WEBTRANSPORT_SESSION(0,"") + FIN on the CONNECT stream, then
// the (unpooled) connection goes away.
func (s *wtClient) close() {
	if s.closed {
		return
	}
	s.closed = true
	cn := s.conn
	if cn.bidi != nil {
		cn.bidi.in.wtFin()
		simrt.Settle()
		wtResched()
	}
	val := binary.BigEndian.AppendUint32(nil, 0)
	b := quicvarint.Append(nil, wtCloseSessionCapsule)
	b = quicvarint.Append(b, uint64(len(val)))
	cn.req.in.write(append(b, val...))
	cn.req.in.wtFin()
	simrt.Settle()
	wtResched()
	cn.clientCloseConn()
	simrt.Settle()
}

// reset is the client vanishing abruptly: the data stream is reset, then the
// whole connection is lost.
func (s *wtClient) reset() {
	if s.closed {
		return
	}
	s.closed = true
	cn := s.conn
	if cn.bidi != nil {
		cn.bidi.clientReset(wtAppErrorZero)
		simrt.Settle()
		wtResched()
	}
	cn.req.clientReset(h3RequestCancelled)
	cn.clientCloseConn()
	simrt.Settle()
}
