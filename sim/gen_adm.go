package sim

import (
	"encoding/json"
	"fmt"
	"path"
	"strconv"
	"strings"
	"time"
)

func init() {
	generators["C05"] = []genFn{GenAdmission}
	sessionOracles = append(sessionOracles, oracleC05)
}

// GenAdmission: canary sessions + one raw client that issues requests from the
// routing/admission grammar, one after the other, while the canaries live.
func GenAdmission(prop string, seed uint64, thorough bool) *Scenario {
	g := newG(seed)
	p := baseProfile()
	sc := &Scenario{Family: "session", Prop: prop, Seed: g.Uint64(), FaultFree: false}
	sc.HorizonMs = g.rng(1500, 3000)
	o := OptSpec{AllowUpgrades: true, CompThreshold: -1}
	o.Transports = [][]string{{"polling", "websocket"}, {"polling"}, {"websocket"}, {"polling", "websocket"}}[g.IntN(4)]
	o.AllowEIO3 = g.p(0.5)
	o.PingIntervalMs, o.PingTimeoutMs = 1000, 1000
	switch g.IntN(6) {
	case 0:
		o.AllowRequest = "ok"
	case 1:
		o.AllowRequest = "deny:you shall not pass"
	case 2:
		o.AllowRequest = "deny-origin:http://evil.test"
	}
	o.FailMiddleware = g.p(0.08)
	if g.p(0.3) {
		o.Cors = genCors(g)
	}
	sc.Opts = o
	// attach shape
	att := &AttachSpec{UseHttpServer: true}
	switch g.IntN(6) {
	case 0:
		att.NoOptions = true
	case 1:
		att.ServerOnly = true
	case 2:
		pth := g.picks("/engine.io", "/engine.io/", "/eio", "/a/b/")
		att.Path = &pth
	case 3:
		pth := g.picks("/engine.io", "/eio/")
		f := false
		att.Path, att.TrailingSlash = &pth, &f
	case 4:
		tr := true
		att.TrailingSlash = &tr
	default:
		pth := "/engine.io"
		att.Path = &pth
	}
	sc.Attach = att
	if att.NoOptions {
		// Attach(server, nil): no server options reach the engine either, everything is at its default
		sc.Opts = OptSpec{AllowUpgrades: true, CompThreshold: -1, Transports: []string{"polling", "websocket"}, FailMiddleware: o.FailMiddleware}
		o = sc.Opts
	}
	mount := refMountPath(att) // where a well-behaved client connects
	// canaries
	hasPolling, hasWS := false, false
	for _, t := range o.Transports {
		hasPolling = hasPolling || t == "polling"
		hasWS = hasWS || t == "websocket"
	}
	canaryOK := !o.FailMiddleware && !strings.HasPrefix(o.AllowRequest, "deny:") && strings.HasSuffix(mount, "/")
	if canaryOK {
		if hasPolling {
			c := ClientSpec{Name: "c1", Transport: "polling", EIO: 4, Path: mount, Canary: true}
			if hasWS && g.p(0.4) {
				// a session that is in the middle of an upgrade for the whole run: a candidate that probes and then
				// takes its time (requests naming this session on the other transport are judged against that state)
				c.CandKind, c.CandAtMs = "websocket", g.pick(50, 150)
				c.Cand = []CandOp{{Op: "probe"}, {Op: "waitpong"}, {Op: "wait", WaitMs: 8000}}
			}
			for k := 0; k < 4; k++ {
				c.Sends = append(c.Sends, ClientMsg{AtMs: 100 + k*sc.HorizonMs/6, ID: fmt.Sprintf("c1.u%d", k), Size: 10})
			}
			sc.Clients = append(sc.Clients, c)
		}
		if hasWS {
			c := ClientSpec{Name: "c2", Transport: "websocket", EIO: 4, Path: mount, Canary: true}
			if g.p(0.5) {
				c.CloseAtMs = g.rng(100, 600) // becomes the "closed session" of the grammar
			}
			sc.Clients = append(sc.Clients, c)
		}
		for _, c := range sc.Clients {
			for k := 0; k < 3; k++ {
				sc.App = append(sc.App, AppOp{AtMs: 150 + k*sc.HorizonMs/5, Task: "s-" + c.Name, Op: "send", Sess: c.Name, ID: fmt.Sprintf("%s.s.%d", c.Name, k), Size: 12})
			}
		}
	}
	// the grammar
	raw := ClientSpec{Name: "x", Transport: "polling", EIO: 4, StartMs: g.pick(0, 200, 700)}
	n := g.rng(4, 12)
	if thorough {
		n = g.rng(8, 30)
	}
	paths := []string{mount, mount, mount, strings.TrimSuffix(mount, "/"), mount + "sub/x", mount + "/", "/", "/other", strings.ToUpper(mount), "/x/../" + strings.TrimPrefix(mount, "/"), "/" + mount, mount + "../" + strings.Trim(mount, "/") + "/", "/engine.io/", "/engine.io"}
	for i := 0; i < n; i++ {
		op := RawOp{Op: "http", AtMs: g.pick(0, 0, 10, 100), Method: g.picks("GET", "GET", "GET", "POST", "POST", "PUT", "OPTIONS", "DELETE", "HEAD", "CONNECT"), Path: paths[g.IntN(len(paths))]}
		var q []string
		tr := g.picks("polling", "polling", "websocket", "webtransport", "flashsocket", "", "POLLING")
		if tr != "" || g.p(0.5) {
			q = append(q, "transport="+tr)
		}
		switch g.IntN(5) {
		case 0:
			q = append(q, "EIO=3")
		case 1:
		case 2:
			q = append(q, "EIO=5")
		default:
			q = append(q, "EIO=4")
		}
		if g.p(0.15) {
			q = append(q, "j="+g.picks("0", "12", "abc", "%22"))
		}
		if g.p(0.15) {
			q = append(q, "b64=1")
		}
		if g.p(0.2) {
			q = append(q, g.picks("t=abc", "x=%00", "foo", "a=b&a=c", "transport="+tr))
		}
		// session ids: unknown, closed (c2 after its orderly close), or live on another transport
		// (requests that would be admitted onto a live canary session would legitimately disturb it)
		switch g.IntN(6) {
		case 0:
			op.SidOf = "nobody"
		case 1:
			if c1 := findClient(sc, "c1"); c1 != nil && c1.Upgrade == "" && tr == "websocket" {
				op.SidOf = "c1"
			}
		case 2:
			if c2 := findClient(sc, "c2"); c2 != nil && c2.CloseAtMs > 0 {
				op.SidOf = "c2"
				if op.AtMs < 50 {
					op.AtMs = 50
				}
			}
		}
		// a sid parameter written in the query itself: alone (unknown or empty id) or next to the real one
		// (repeated parameter with different values: which one wins is not specified, but every check and
		// the dispatch have to look at the same one)
		if g.p(0.12) {
			q = append(q, g.picks("sid=", "sid=bogus", "sid=", "sid=AAAAAAAAAAAAAAAAAAAA"))
			if g.p(0.3) {
				q = append(q, g.picks("sid=", "sid=bogus2"))
			}
			if op.SidOf == "" && g.p(0.5) {
				if c1 := findClient(sc, "c1"); c1 != nil && c1.Upgrade == "" && c1.CloseAtMs == 0 && g.p(0.5) {
					op.SidOf = "c1"
				} else {
					op.SidOf = "nobody"
				}
			}
		}
		op.Query = strings.Join(q, "&")
		op.Hdr = map[string]string{}
		switch g.IntN(8) {
		case 0:
			op.Hdr["Origin"] = "http://a.test"
		case 1:
			op.Hdr["Origin"] = "http://evil.test"
		case 2:
			op.Hdr["Origin"] = "http://a.test\x01"
		case 3:
			op.Hdr["Origin"] = "bad\norigin"
		case 4:
			op.Hdr["Origin"] = "tab\tis fine"
		}
		if op.Method == "OPTIONS" {
			op.Hdr["Access-Control-Request-Method"] = "POST"
			if op.Hdr["Origin"] == "" {
				op.Hdr["Origin"] = "http://a.test"
			}
		}
		if op.Method == "POST" {
			op.Body = []byte(g.picks("4hello", "1", "2", "", "6"))
			op.Hdr["Content-Type"] = "text/plain;charset=UTF-8"
		}
		if g.p(0.2) && hasWS && op.SidOf != "c1" { // the same request as a WebSocket upgrade
			op.Op, op.Method = "ws-open", "GET"
		}
		raw.Raw = append(raw.Raw, op)
	}
	if (strings.HasPrefix(o.AllowRequest, "deny:") || o.AllowRequest == "ok") && g.p(0.5) {
		// the allow-request hook takes its time, and the client gives up on a handshake while the hook is still
		// deciding: a refusal is reported (one connection_error event) whether or not anybody is left to read the answer
		sc.Opts.AllowSlowMs = g.pick(20, 60)
		tr := "polling"
		if !hasPolling {
			tr = "websocket"
		}
		raw.Raw = append(raw.Raw, RawOp{Op: "http", AtMs: 30, Method: "GET", Path: mount, Query: "EIO=4&transport=" + tr, Async: true, Expect: "abandoned while the hook decides"})
		raw.Raw = append(raw.Raw, RawOp{Op: "abort", AtMs: sc.Opts.AllowSlowMs / 2})
		raw.Raw = append(raw.Raw, RawOp{Op: "wait", AtMs: sc.Opts.AllowSlowMs})
	}
	sc.Clients = append(sc.Clients, raw)
	sc.Policy, sc.HotFuncs = genPolicy(g, []string{"baseServer.Verify", "baseServer.Handshake", "server.HandleRequest", "server.HandleUpgrade", "server.onWebSocket"}, 8000)
	sc.MaxSteps = 80000
	_ = p
	return sc
}

func findClient(sc *Scenario, name string) *ClientSpec {
	for i := range sc.Clients {
		if sc.Clients[i].Name == name {
			return &sc.Clients[i]
		}
	}
	return nil
}

// refMountPath: the reference for where the engine is mounted.
// "by default '/engine.io/', with or without attach options; the trailing
// slash governed by the attach options"
func refMountPath(a *AttachSpec) string {
	p := "/engine.io"
	slash := true
	if a != nil && !a.NoOptions && !a.ServerOnly {
		if a.Path != nil {
			p = strings.TrimRight(*a.Path, "/")
		}
		if a.TrailingSlash != nil {
			slash = *a.TrailingSlash
		}
	}
	if slash {
		p += "/"
	}
	return p
}

// refCleanPath: net/http's path cleaning (what "cleaned URL path" means).
func refCleanPath(p string) string {
	if p == "" {
		return "/"
	}
	if p[0] != '/' {
		p = "/" + p
	}
	np := path.Clean(p)
	if p[len(p)-1] == '/' && np != "/" {
		np += "/"
	}
	return np
}

// refReachesEngine: exact match, or prefix match when the mount path ends in a slash.
func refReachesEngine(mount, urlPath string) bool {
	c := refCleanPath(urlPath)
	if strings.HasSuffix(mount, "/") {
		return strings.HasPrefix(c, mount)
	}
	return c == mount
}

type admExpect struct {
	engine bool
	admit  bool
	status int
	code   int
	msg    string
	skip   bool // outside the statement
}

func hasCtl(s string) bool {
	for i := 0; i < len(s); i++ {
		if (s[i] < ' ' && s[i] != '\t') || s[i] == 0x7f {
			return true
		}
	}
	return false
}

// lastParam returns the value of a query parameter; ok=false when ambiguous (repeated with different values).
func queryParam(q, key string) (val string, present, ambiguous bool) {
	for _, kv := range strings.Split(q, "&") {
		k, v := kv, ""
		if i := strings.Index(kv, "="); i >= 0 {
			k, v = kv[:i], kv[i+1:]
		}
		if k == key {
			if present && v != val {
				ambiguous = true
			}
			val, present = v, true
		}
	}
	return
}

// oracleC05 compares every grammar request with the reference of routing and check precedence.
func oracleC05(f *sessionFam, w *World, res *Result) []Violation {
	l := &vlist{prop: "C05"}
	// whole-session scenarios: a request of a conformant client that names its own session on the session's own
	// transport is admitted as long as that session has not closed - 'closing' (a graceful close waiting for the next
	// poll) is not closed: that poll is the one that carries the close packet
	for ci := range f.sc.Clients {
		sp := &f.sc.Clients[ci]
		sid := w.SockIDs[sp.Name]
		if len(sp.Raw) > 0 || sid == "" || len(w.evs(sp.Name, "close-before-attach")) > 0 {
			continue
		}
		connSeq, closeSeq := 0, 0
		var closeT time.Duration
		for _, e := range w.evs(sp.Name, "connection") {
			connSeq = e.Seq
		}
		for _, e := range w.evs(sp.Name, "close") {
			if closeSeq == 0 {
				closeSeq, closeT = e.Seq, e.T
			}
		}
		for _, r := range w.resps {
			if r.Client != sp.Name || r.Status != 400 || !r.Returned || !strings.Contains(r.URL, "sid="+sid) || !strings.Contains(r.URL, "transport=polling") {
				continue
			}
			var body struct {
				Code *int `json:"code"`
			}
			if json.Unmarshal(r.Body, &body) != nil || body.Code == nil || *body.Code != 1 {
				continue
			}
			reqSeq := 0
			for _, e := range w.evs(sp.Name, "http-req") {
				if e.N == int64(r.ID) {
					reqSeq = e.Seq
				}
			}
			if connSeq == 0 || reqSeq < connSeq {
				continue
			}
			// (a request processed in the very instant the session closes races with the close: the session leaves the
			// table a few statements before the application hears of it)
			if closeSeq == 0 || closeT > r.T1 {
				st := "open"
				for _, e := range w.Evs {
					if e.Seq > reqSeq {
						break
					}
					if e.Sess == sp.Name && e.St != "" {
						st = readyOf(e.St)
					}
				}
				l.add("known-session-admitted", st, fmt.Sprintf("%s: %s %s was refused with 'Session ID unknown' although the session had not closed (state %s; close event: %v)", sp.Name, r.Method, clip(r.URL, 70), st, closeSeq != 0))
			}
		}
	}
	// ... and a request naming a session that has closed is refused: 400, code 1 (the probes of the end phase)
	anyRaw := false
	for _, c := range f.sc.Clients {
		anyRaw = anyRaw || len(c.Raw) > 0
	}
	if !anyRaw && f.sc.Attach == nil {
		for _, e := range w.evs("", "dead-sid-probe") {
			if e.N != 400 || !strings.Contains(e.S, `"code":1`) {
				c := "polling"
				if len(e.P) > 0 {
					c = e.P[0]
				}
				l.add("closed-session-refused", c, fmt.Sprintf("a %s request naming the closed session of %s was answered %d %q instead of 400 'Session ID unknown'", c, e.Sess, e.N, clip(e.S, 80)))
			}
		}
	}
	if f.sc.Attach == nil {
		return l.out
	}
	mount := refMountPath(f.sc.Attach)
	o := f.sc.Opts
	enabled := map[string]bool{}
	for _, t := range o.Transports {
		enabled[t] = true
	}
	// state of other sessions over time
	type sessInfo struct {
		connSeq, closeSeq int
		transportAt       func(seq int) string
	}
	info := map[string]*sessInfo{}
	for _, a := range sortedKeys(w.SockIDs) {
		a := a
		si := &sessInfo{}
		for _, e := range w.evs(a, "connection") {
			si.connSeq = e.Seq
		}
		for _, e := range w.evs(a, "close") {
			if si.closeSeq == 0 {
				si.closeSeq = e.Seq
			}
		}
		si.transportAt = func(seq int) string {
			t := ""
			for _, e := range w.Evs {
				if e.Seq > seq {
					break
				}
				if e.Sess == a && e.St != "" {
					t = transportOf(e.St)
				}
			}
			return t
		}
		info[a] = si
	}
	for ci := range f.sc.Clients {
		sp := &f.sc.Clients[ci]
		if len(sp.Raw) == 0 || sp.Name != "x" {
			continue
		}
		for _, e := range w.Evs {
			if e.Sess != sp.Name || (e.Kind != "c-raw-resp" && e.Kind != "c-raw-ws-open") || len(e.P) < 2 {
				continue
			}
			idx, _ := strconv.Atoi(e.P[1])
			op := sp.Raw[idx]
			isWS := e.Kind == "c-raw-ws-open"
			// when did the server see the request?
			reqSeq := e.Seq
			for j := len(w.Evs) - 1; j >= 0; j-- {
				if w.Evs[j].Seq < e.Seq && w.Evs[j].Kind == "http-req" && w.Evs[j].Sess == sp.Name {
					reqSeq = w.Evs[j].Seq
					break
				}
			}
			exp := admExpect{}
			exp.engine = refReachesEngine(mount, op.Path)
			gotApp := len(e.P) > 2 && e.P[2] == "app"
			if isWS {
				gotApp = e.N == 418
			}
			desc := fmt.Sprintf("%s %s?%s (origin %q, ws-upgrade=%v)", op.Method, op.Path, op.Query, op.Hdr["Origin"], isWS)
			{
				if gotApp == exp.engine {
					c := "should-reach-engine"
					if gotApp == false {
						c = "should-reach-application"
					}
					c = "wrong-handler"
					att := "options"
					if f.sc.Attach.NoOptions {
						att = "no-options"
					} else if f.sc.Attach.ServerOnly {
						att = "server-options-only"
					}
					l.add("routing", c+"/"+att, fmt.Sprintf("%s: mount path %q (attach: %+v), cleaned path %q: served by application=%v, expected engine=%v; response %d %q", desc, mount, attDesc(f.sc.Attach), refCleanPath(op.Path), gotApp, exp.engine, e.N, clip(e.S, 60)))
					continue
				}
			}
			if !exp.engine {
				continue
			}
			// admission
			tr, _, amb1 := queryParam(op.Query, "transport")
			eio, _, amb2 := queryParam(op.Query, "EIO")
			sidQ, sidInQuery, amb3 := queryParam(op.Query, "sid")
			if sidInQuery && op.SidOf != "" {
				amb3 = true
			}
			if amb1 || amb2 || amb3 {
				// a repeated parameter with different values: the statement does not say which one counts, so only what
				// holds under every reading is judged - a handshake needs GET, hence a request with another method never
				// creates a session; and a documented error answer comes with exactly one connection_error event
				w.probe("ambiguous_repeated_parameter")
				if !isWS && op.Method != "GET" && op.Method != "OPTIONS" {
					for _, ce := range w.evs(sp.Name, "connection") {
						if ce.Seq > reqSeq && ce.Seq < e.Seq {
							l.add("rejection-creates-no-session", "non-get-request", fmt.Sprintf("%s: a %s request created a session", desc, op.Method))
						}
					}
				}
				var body struct {
					Code    *int   `json:"code"`
					Message string `json:"message"`
				}
				if !isWS && (e.N == 400 || e.N == 403) && json.Unmarshal([]byte(e.S), &body) == nil && body.Code != nil {
					nErr := 0
					for _, ce := range w.Evs {
						if ce.Kind == "connection_error" && ce.Sess == sp.Name && ce.Seq > reqSeq && ce.Seq < e.Seq {
							nErr++
						}
					}
					if nErr != 1 {
						l.add("one-connection-error-event", fmt.Sprintf("%d/code-%d/repeated-parameter", nErr, *body.Code), fmt.Sprintf("%s: answered with error code %d and %d connection_error events", desc, *body.Code, nErr))
					}
				}
				continue
			}
			sidAlias := op.SidOf
			if sidInQuery && sidQ != "" {
				sidAlias = "nobody" // an id written out in the query: none of them exists
			}
			origin := op.Hdr["Origin"]
			exp = admExpect{engine: true, admit: true}
			set := func(status, code int, msg string) {
				if exp.admit {
					exp.admit, exp.status, exp.code, exp.msg = false, status, code, msg
				}
			}
			if o.Cors != nil && op.Method == "OPTIONS" && !isWS {
				continue // preflight: C17
			}
			if o.FailMiddleware {
				set(400, 3, "Bad request")
			}
			if !enabled[tr] || tr == "webtransport" {
				set(400, 0, "Transport unknown")
			}
			if hasCtl(origin) {
				set(400, 3, "Bad request")
			}
			if sidAlias != "" {
				si := info[sidAlias]
				known := si != nil && si.connSeq != 0 && si.connSeq < reqSeq && (si.closeSeq == 0 || si.closeSeq > reqSeq)
				racing := si != nil && ((si.closeSeq != 0 && abs(si.closeSeq-reqSeq) < 40) || (si.connSeq != 0 && abs(si.connSeq-reqSeq) < 40))
				if racing {
					continue // the session opened/closed while the request was in flight: either answer is fine
				}
				if !known {
					set(400, 1, "Session ID unknown")
				} else if !isWS && si.transportAt(reqSeq) != tr {
					set(400, 3, "Bad request")
				} else if exp.admit {
					continue // a request on a live session: the transport's business (C11), not admission
				}
			} else {
				if op.Method != "GET" {
					set(400, 2, "Bad handshake method")
				}
				if tr == "websocket" && !isWS {
					set(400, 3, "Bad request")
				}
				switch {
				case strings.HasPrefix(o.AllowRequest, "deny:"):
					set(403, 4, strings.TrimPrefix(o.AllowRequest, "deny:"))
				case strings.HasPrefix(o.AllowRequest, "deny-origin:") && origin == strings.TrimPrefix(o.AllowRequest, "deny-origin:"):
					set(403, 4, "origin "+origin+" refused")
				}
				if eio != "4" && !o.AllowEIO3 {
					set(400, 5, "Unsupported protocol version")
				}
			}
			if isWS && (!enabled["websocket"] || tr != "websocket") {
				continue // 501 Not Implemented / an upgrade request naming a transport that does not take upgrades: outside the statement
			}
			// compare
			nErr := 0
			for _, ce := range w.Evs {
				if ce.Kind == "connection_error" && ce.Sess == sp.Name && ce.Seq > reqSeq && ce.Seq < e.Seq {
					nErr++
				}
			}
			abandoned := false
			if len(e.P) > 3 {
				id, _ := strconv.Atoi(e.P[3])
				for _, r := range w.resps {
					if r.ID == id {
						abandoned = r.Aborted
					}
				}
			}
			if exp.admit && abandoned {
				continue // the client gave up on a request that would have been admitted: nothing to compare
			}
			if exp.admit {
				ok := (e.N == 200 && !isWS) || (isWS && e.N == 101)
				if !ok {
					l.add("admitted", fmt.Sprintf("got-%d", e.N), fmt.Sprintf("%s: expected to be admitted, got %d %q", desc, e.N, clip(e.S, 80)))
				}
				continue
			}
			if isWS && e.N == 101 {
				// refused only after the WebSocket connection was accepted: a close frame with the same text
				var cf *Ev
				for i := range w.Evs {
					if w.Evs[i].Sess == sp.Name && w.Evs[i].Kind == "c-ws-close-frame" && w.Evs[i].Seq > reqSeq {
						cf = &w.Evs[i]
						break
					}
				}
				if cf == nil || cf.S != exp.msg {
					got := "no close frame"
					if cf != nil {
						got = fmt.Sprintf("close frame %d %q", cf.N, cf.S)
					}
					l.add("refusal-after-accept-carries-text", fmt.Sprintf("code-%d", exp.code), fmt.Sprintf("%s: expected the accepted WebSocket to be closed with %q, got %s", desc, exp.msg, got))
				}
			} else if abandoned {
				// the client had given up on the request: nobody reads the answer, the refusal is reported all the same
				w.probe("refusal_of_abandoned_request")
			} else {
				var body struct {
					Code    *int   `json:"code"`
					Message string `json:"message"`
				}
				raw := e.S
				if isWS && len(e.P) > 2 {
					raw = e.P[2]
				}
				jerr := json.Unmarshal([]byte(raw), &body)
				if int(e.N) != exp.status || jerr != nil || body.Code == nil || *body.Code != exp.code || body.Message != exp.msg {
					gc := -1
					if body.Code != nil {
						gc = *body.Code
					}
					l.add("documented-error", fmt.Sprintf("expected-%d-code-%d/got-%d-code-%d", exp.status, exp.code, e.N, gc), fmt.Sprintf("%s: expected %d {code:%d message:%q}, got %d %q", desc, exp.status, exp.code, exp.msg, e.N, clip(raw, 100)))
				}
			}
			if nErr != 1 {
				l.add("one-connection-error-event", fmt.Sprintf("%d/code-%d", nErr, exp.code), fmt.Sprintf("%s: rejected (code %d) with %d connection_error events", desc, exp.code, nErr))
			}
			// a rejected request creates no session
			for _, ce := range w.evs(sp.Name, "connection") {
				if ce.Seq > reqSeq && ce.Seq < e.Seq {
					l.add("rejection-creates-no-session", "", fmt.Sprintf("%s: rejected but a session was created", desc))
				}
			}
		}
	}
	// non-interference: the canaries stay open and keep exchanging messages
	for _, c := range f.sc.Clients {
		if !c.Canary || c.CloseAtMs > 0 {
			continue
		}
		if len(w.evs(c.Name, "connection")) == 0 {
			continue
		}
		touched := false
		for _, x := range f.sc.Clients {
			for _, op := range x.Raw {
				if _, inQ, _ := queryParam(op.Query, "sid"); inQ && op.SidOf == c.Name {
					touched = true // a request that, under one reading of its repeated sid, is a request of this very session
				}
			}
		}
		if touched {
			continue
		}
		if st := f.snap[c.Name]; f.ended && readyOf(st) != "open" {
			reason := ""
			if ce := w.evs(c.Name, "close"); len(ce) > 0 {
				reason = ce[0].S
			}
			l.add("existing-session-undisturbed", reason, fmt.Sprintf("canary %s is %s at the end (close reason %q) although only another client misbehaved", c.Name, st, reason))
		}
	}
	return l.out
}

func abs(x int) int {
	if x < 0 {
		return -x
	}
	return x
}

func attDesc(a *AttachSpec) string {
	s := ""
	if a.NoOptions {
		return "nil"
	}
	if a.ServerOnly {
		return "server options only"
	}
	if a.Path != nil {
		s += "path=" + *a.Path + " "
	}
	if a.TrailingSlash != nil {
		s += fmt.Sprintf("addTrailingSlash=%v", *a.TrailingSlash)
	}
	if s == "" {
		s = "empty attach options"
	}
	return s
}
