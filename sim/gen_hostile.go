package sim

import (
	"fmt"
	"strconv"
	"strings"

	"verif/sim/ref"
)

func init() {
	generators["C09"] = []genFn{GenHostile}
	generators["C10"] = []genFn{GenLimits}
	sessionOracles = append(sessionOracles, oracleC09, oracleC10)
}

func canaries(g *G, sc *Scenario, hasWS bool) {
	c1 := ClientSpec{Name: "c1", Transport: "polling", EIO: 4, Canary: true}
	for k := 0; k < 4; k++ {
		c1.Sends = append(c1.Sends, ClientMsg{AtMs: 100 + k*sc.HorizonMs/6, ID: fmt.Sprintf("c1.u%d", k), Size: 10})
	}
	sc.Clients = append(sc.Clients, c1)
	if hasWS && g.p(0.6) {
		c2 := ClientSpec{Name: "c2", Transport: "websocket", EIO: 4, Canary: true}
		c2.Sends = append(c2.Sends, ClientMsg{AtMs: sc.HorizonMs / 2, ID: "c2.u0", Size: 10})
		sc.Clients = append(sc.Clients, c2)
	}
	for _, c := range sc.Clients {
		for k := 0; k < 3; k++ {
			sc.App = append(sc.App, AppOp{AtMs: 150 + k*sc.HorizonMs/5, Task: "s-" + c.Name, Op: "send", Sess: c.Name, ID: fmt.Sprintf("%s.s.%d", c.Name, k), Size: 12})
		}
	}
}

// mutate applies byte-level mutations to a payload.
func mutate(g *G, b []byte) []byte {
	b = append([]byte(nil), b...)
	n := g.rng(1, 3)
	for i := 0; i < n; i++ {
		switch g.IntN(6) {
		case 0:
			if len(b) > 0 {
				b[g.IntN(len(b))] ^= byte(1 << g.IntN(8))
			}
		case 1:
			if len(b) > 1 {
				b = b[:g.IntN(len(b))]
			}
		case 2:
			j := g.IntN(len(b) + 1)
			b = append(b[:j], append([]byte(g.picks("\xff", "\x00", "\x1e", ":", "99999999999", "\xc3", "b", "-1", "\xf0\x9f")), b[j:]...)...)
		case 3:
			if len(b) > 0 {
				b[0] = "0123456789b\xff"[g.IntN(12)]
			}
		case 4:
			b = append(b, b...)
		case 5:
			if len(b) > 2 {
				j := g.IntN(len(b) - 1)
				b[j], b[j+1] = b[j+1], b[j]
			}
		}
	}
	return b
}

// hostileBody draws a request body for a data request of revision eio.
func hostileBody(g *G, eio int) (body []byte, ctype string) {
	ctype = g.picks("text/plain;charset=UTF-8", "text/plain;charset=UTF-8", "application/octet-stream", "application/json", "")
	pk := func() ref.Packet {
		t := g.IntN(7)
		d := []byte(g.picks("", "x", "probe", "héllo", "\xf0\x9f\x98\x80", "a\x1eb", "1:2", `{"sid":"x"}`, "null"))
		return ref.Packet{Type: t, Data: d, Binary: t == 4 && g.p(0.3)}
	}
	var ps []ref.Packet
	for i, n := 0, g.rng(1, 3); i < n; i++ {
		ps = append(ps, pk())
	}
	switch g.IntN(8) {
	case 0, 1:
		if eio == 4 {
			body = ref.EncodePayloadV4(ps)
		} else {
			var bin bool
			body, bin = ref.EncodePayloadV3(ps, true)
			if bin {
				ctype = "application/octet-stream"
			}
		}
	case 2, 3:
		if eio == 4 {
			body = mutate(g, ref.EncodePayloadV4(ps))
		} else {
			b, _ := ref.EncodePayloadV3(ps, g.p(0.5))
			body = mutate(g, b)
		}
	case 4:
		// revision-3 length prefixes: truncated, inflated, negative, huge
		body = []byte(g.picks("5:4ab", "99999999:4ab", "-1:4ab", "1:", ":4ab", "2:4", "00000000000000000002:4a", "4294967296:4a", "1e3:4abc", "3:4é"))
	case 5:
		// revision-3 binary framing with hostile lengths
		if g.p(0.3) {
			body = []byte{0}
			for i, n := 0, g.rng(7, 18); i < n; i++ {
				body = append(body, 9)
			}
			body = append(body, 0xff)
			body = append(body, "4ab"...)
			ctype = "application/octet-stream"
			break
		}
		body = []byte{byte(g.pick(0, 1, 2, 0xff))}
		for i, n := 0, g.rng(0, 12); i < n; i++ {
			body = append(body, byte(g.pick(0, 1, 9, 9, 9, 10, 0xfe)))
		}
		body = append(body, 0xff)
		body = append(body, []byte(g.picks("", "\x04ab", "4ab"))...)
		ctype = "application/octet-stream"
	case 6:
		body = []byte(g.picks("b!!!!", "bAQ", "b", "b====", "4", "", "\x1e\x1e\x1e", "9", "0null", "0{\"sid\":1}", "2probe", "5", "1", "3", "6", "44444\x1e1\x1e4after-close"))
	case 7:
		body = []byte("d=" + g.picks("4abc", "%zz", "4a%5cnb", "4a\\nb", "4a\\\\nb", "", "%00", "1%3A4"))
		ctype = "application/x-www-form-urlencoded"
	}
	return body, ctype
}

// GenHostile: canaries next to clients that do everything a client can do.
func GenHostile(prop string, seed uint64, thorough bool) *Scenario {
	g := newG(seed)
	sc := &Scenario{Family: "session", Prop: prop, Seed: g.Uint64()}
	sc.HorizonMs = g.rng(1200, 2500)
	o := OptSpec{AllowUpgrades: true, CompThreshold: -1, AllowEIO3: g.p(0.7)}
	o.Transports = []string{"polling", "websocket"}
	wt := g.p(0.35)
	if wt {
		o.Transports = append(o.Transports, "webtransport")
	}
	o.PingIntervalMs, o.PingTimeoutMs = g.pick(200, 500, 1000), g.pick(300, 1000)
	o.UpgradeTimeoutMs = g.pick(300, 1000)
	if g.p(0.3) {
		o.MaxBuf = int64(g.pick(200, 1000)) // large enough for a canary's batched payload (message + heartbeat)
	}
	if g.p(0.2) {
		o.PMD = true
	}
	sc.Opts = o
	canaries(g, sc, true)
	if o.MaxBuf != 0 && o.MaxBuf < 100 {
		// the canaries' own messages must fit
		for i := range sc.Clients {
			for k := range sc.Clients[i].Sends {
				sc.Clients[i].Sends[k].Size = 8
			}
		}
	}
	nh := g.rng(1, 2)
	for h := 0; h < nh; h++ {
		eio := 4
		if o.AllowEIO3 && g.p(0.4) {
			eio = 3
		}
		x := ClientSpec{Name: fmt.Sprintf("x%d", h+1), Transport: "polling", EIO: eio, StartMs: g.pick(0, 50, 300)}
		if g.p(0.15) {
			x.JSONP, x.B64, x.J = true, true, "1"
		}
		base := "EIO=" + strconv.Itoa(eio) + "&transport=polling"
		if x.JSONP {
			base += "&b64=1&j=1"
		} else if g.p(0.2) {
			base += "&b64=1"
			x.B64 = true
		}
		var ops []RawOp
		mode := g.IntN(5)
		hs := RawOp{Op: "http", Method: "GET", Query: base}
		switch mode {
		case 0, 1: // polling session, hostile data requests and polls
			ops = append(ops, hs)
			for i, n := 0, g.rng(2, 8); i < n; i++ {
				switch g.IntN(6) {
				case 0:
					ops = append(ops, RawOp{Op: "http", Method: "GET", Query: base, UseSid: true, Async: g.p(0.7), AtMs: g.pick(0, 0, 10)})
				case 1:
					ops = append(ops, RawOp{Op: "abort"})
				default:
					b, ct := hostileBody(g, eio)
					op := RawOp{Op: "http", Method: g.picks("POST", "POST", "POST", "PUT", "DELETE"), Query: base, UseSid: true, Body: b, Hdr: map[string]string{"Content-Type": ct}, Async: g.p(0.2), AtMs: g.pick(0, 0, 5, 50), NoCL: g.p(0.1)}
					if g.p(0.12) && len(b) > 0 {
						// the upload breaks off with a read error (bad chunk header) while the connection stays usable
						op.NoCL, op.BodyErrAt = true, int64(1+g.IntN(len(b)+1))
					}
					ops = append(ops, op)
				}
			}
		case 2: // upgrade candidate with mismatched revision / odd packets
			if g.p(0.4) {
				x.WriteDelayMs = g.pick(1, 3) // (over a slow link: the answers to two probes can be on their way at once)
			}
			ops = append(ops, hs)
			ops = append(ops, RawOp{Op: "http", Method: "GET", Query: base, UseSid: true, Async: true})
			weio := eio
			if g.p(0.6) {
				weio = 7 - eio // 3 <-> 4
			}
			ops = append(ops, RawOp{Op: "ws-open", Query: "EIO=" + strconv.Itoa(weio) + "&transport=websocket", UseSid: true, AtMs: 10})
			for i, n := 0, g.rng(1, 6); i < n; i++ {
				pl := []byte(g.picks("2probe", "5", "2", "3", "2probe", "5", "4hi", "1", "6", "0", "3probe", "b4AQID", "9", ""))
				ops = append(ops, RawOp{Op: "ws-frame", Conn: 0, AtMs: g.pick(0, 0, 5, 120), Frame: &RawFrame{Op: byte(g.pick(1, 1, 1, 2)), Fin: true, Payload: pl}})
			}
		case 3: // websocket session with hostile frames
			weio := eio
			ops = append(ops, RawOp{Op: "ws-open", Query: "EIO=" + strconv.Itoa(weio) + "&transport=websocket"})
			for i, n := 0, g.rng(1, 6); i < n; i++ {
				switch g.IntN(5) {
				case 0:
					ops = append(ops, RawOp{Op: "ws-raw", Conn: 0, Bytes: []byte(g.picks("\x81\xfe\xff\xff", "\x8f\x80\x00\x00\x00\x00", "\x89\xff", "\x01\x81\x00\x00\x00\x00a", "\x81\xff\x7f\xff\xff\xff\xff\xff\xff\xff", "\xc1\x81\x00\x00\x00\x00a", "\x88\x81\x00\x00\x00\x00a", "GET / HTTP/1.1\r\n\r\n"))})
				case 1:
					ops = append(ops, RawOp{Op: "ws-frame", Conn: 0, Frame: &RawFrame{Op: byte(g.pick(0, 1, 2, 8, 9, 10, 3, 11)), Fin: g.p(0.8), Payload: []byte(g.picks("4\xff\xfe", "2", "3", "1", "", "4ok", "\x04bin", "5"))}})
				default:
					pl := []byte(g.picks("2", "3", "4hello", "1", "6", "0", "5", "2probe", "b4AQID", "b!!", "9x", "4\xc3\x28"))
					ops = append(ops, RawOp{Op: "ws-frame", Conn: 0, AtMs: g.pick(0, 0, 10), Frame: &RawFrame{Op: byte(g.pick(1, 1, 2)), Fin: true, Payload: pl}})
				}
			}
			if g.p(0.5) {
				ops = append(ops, RawOp{Op: g.picks("ws-close", "ws-reset"), Conn: 0, AtMs: g.pick(0, 50)})
			}
		case 4: // webtransport
			if !wt {
				ops = append(ops, hs)
				break
			}
			frame := func(s string, bin bool) []byte {
				return ref.AppendWTFrame(nil, ref.WTMsg{Binary: bin, Data: []byte(s)})
			}
			first := [][]byte{frame("0", false), frame("0null", false), frame(`0{"sid":"nope"}`, false), frame(`0{"sid":""}`, false), frame("4hi", false), frame("0", true), {0x7f, 0xff, 0xff, 0xff, 0xff, 0xff, 0xff, 0xff, 0xff}, {0xfe}, nil, frame(`0{"sid":7}`, false), frame("1", false)}[g.IntN(11)]
			ops = append(ops, RawOp{Op: "wt-open", Bytes: first})
			for i, n := 0, g.rng(0, 4); i < n; i++ {
				b := [][]byte{frame("2", false), frame("3", false), frame("4hi", false), frame("1", false), frame("\x04x", true), {0x7e, 0x00}, {0xff, 0x80, 0, 0, 0, 0, 0, 0, 1}, frame("5", false), frame("2probe", false)}[g.IntN(9)]
				ops = append(ops, RawOp{Op: "wt-raw", Conn: 0, Bytes: b, AtMs: g.pick(0, 0, 20)})
			}
			if g.p(0.5) {
				ops = append(ops, RawOp{Op: "wt-close", Conn: 0, AtMs: g.pick(0, 30)})
			}
		}
		x.Raw = ops
		sc.Clients = append(sc.Clients, x)
	}
	sc.Policy, sc.HotFuncs = genPolicy(g, []string{"socket.onPacket", "socket.MaybeUpgrade", "polling.onDataRequest", "polling.OnData", "jsonp.OnData", "server.onWebSocket", "server.OnWebTransportSession", "websocket.message", "webTransport.message"}, 8000)
	sc.MaxSteps = 120000
	return sc
}

// lastRawOp describes what the hostile client did last before event seq.
func lastRawOp(f *sessionFam, w *World, seq int) string {
	last := ""
	for _, e := range w.Evs {
		if e.Seq > seq {
			break
		}
		if strings.HasPrefix(e.Kind, "c-raw") || e.Kind == "http-req" && strings.HasPrefix(e.Sess, "x") {
			last = e.Kind
			if e.Kind == "http-req" {
				last = strings.SplitN(e.S, " ", 2)[0]
			}
		}
	}
	return last
}

// oracleC09: no panic, nothing stuck after the client is gone, canaries undisturbed.
func oracleC09(f *sessionFam, w *World, res *Result) []Violation {
	l := &vlist{prop: "C09"}
	hostile := map[string]bool{}
	anyHostile := false
	for _, c := range f.sc.Clients {
		if len(c.Raw) > 0 {
			hostile[c.Name] = true
			anyHostile = true
		}
	}
	// (panics are turned into C09 violations by sessionFam.finish for every session scenario)
	// work out of proportion: the run passed millions of yield points although the clients
	// sent a few kilobytes (a decode loop driven by an attacker-chosen number)
	// (the hand-off limit counts as work only if the hand-offs are the code's own - tasks blocking and waking each
	// other; a run that spent its hand-offs on the scheduler's forced pre-emptions was cut short by the exploration
	// policy, not by the code under test, and is counted as a truncated run)
	if res.Outcome == "yields" || (res.Outcome == "steps" && res.Steps-res.Preempts > f.sc.MaxSteps/2) {
		// where the budget ran out: the component (top-level directory of the site), not the function
		comp := res.LastSite
		if i := strings.Index(comp, "/"); i > 0 {
			comp = comp[:i]
		}
		if strings.HasPrefix(res.LastSite, "_deps/") {
			comp = "dependency-" + strings.SplitN(strings.TrimPrefix(res.LastSite, "_deps/"), "/", 2)[0]
		}
		l.add("work-in-proportion", "in-"+comp, fmt.Sprintf("the run passed %d yield points / %d hand-offs (limits 3,000,000 / %d) for a few kilobytes of client input; last site %s", res.Yields, res.Steps, f.sc.MaxSteps, res.LastSite))
	}
	if f.drained {
		for _, a := range f.aliveAfterDrain {
			if strings.HasPrefix(a, "z-end") || strings.HasPrefix(a, "~oracle") {
				continue
			}
			owner := a
			if i := strings.IndexAny(a, "/["); i >= 0 {
				owner = a[:i]
			}
			// (a task the simulated client itself spawned - its reader of a raw connection - is the harness's, not the
			// server's: tasks started by server code are labelled with the numeric site of their go statement)
			if parts := strings.Split(strings.SplitN(a, "[", 2)[0], "/"); len(parts) > 1 {
				if last := parts[len(parts)-1]; last != "" && (last[0] < '0' || last[0] > '9') {
					continue
				}
			}
			where := a
			if i := strings.Index(a, "["); i >= 0 {
				where = a[i:]
			}
			kind := "server-goroutine"
			if !strings.Contains(strings.SplitN(a, "[", 2)[0], "/") {
				kind = "handler"
			}
			role := "conformant-client"
			if hostile[owner] {
				role = "hostile-client"
			}
			if strings.HasPrefix(owner, "app-") || owner == "a-setup" {
				role = "application"
			}
			l.add("nothing-stuck-after-connection-gone", kind+"/"+role+"/"+siteFunc(where), fmt.Sprintf("task %s is still alive %v after every client connection was gone", a, f.grace))
		}
	}
	if !anyHostile || !f.ended {
		return l.out // the run was cut short (work budget, failure): the canaries never got to finish
	}
	// canaries: still open, and everything they were sent / sent arrived
	for _, c := range f.sc.Clients {
		if !c.Canary || len(w.evs(c.Name, "connection")) == 0 {
			continue
		}
		if st := f.snap[c.Name]; f.ended && readyOf(st) != "open" {
			reason := ""
			if ce := w.evs(c.Name, "close"); len(ce) > 0 {
				reason = ce[0].S
			}
			l.add("other-sessions-undisturbed", "closed/"+reason, fmt.Sprintf("canary %s is %s at the end (close reason %q) while only other clients misbehaved", c.Name, st, reason))
			continue
		}
		got := map[string]bool{}
		for _, e := range w.evs(c.Name, "c-recv") {
			got[e.S] = true
		}
		for _, m := range w.sent[c.Name] {
			if e := w.Evs[m.Seq-1]; f.endAt-e.T > 400_000_000 && !got[kindPrefix(m.Binary)+string(m.Data)] {
				l.add("other-sessions-undisturbed", "message-lost", fmt.Sprintf("canary %s never received %q", c.Name, m.ID))
				break
			}
		}
		in := map[string]bool{}
		for _, e := range w.evs(c.Name, "message") {
			in[e.S] = true
		}
		for _, e := range w.evs(c.Name, "c-send") {
			if f.endAt-e.T > 400_000_000 && !in[e.S] {
				l.add("other-sessions-undisturbed", "inbound-lost", fmt.Sprintf("canary %s: message %q never reached the application", c.Name, clip(e.S, 30)))
				break
			}
		}
	}
	return l.out
}

func siteFunc(where string) string {
	// "[blocked@file.go:12(Func)]" -> Func
	if i := strings.LastIndex(where, "("); i >= 0 {
		if j := strings.Index(where[i:], ")"); j > 0 {
			return where[i+1 : i+j]
		}
	}
	if i := strings.Index(where, "@"); i >= 0 {
		return strings.Trim(where[i+1:], "]")
	}
	return where
}

// GenLimits: bodies and frames around the configured maximum payload.
func GenLimits(prop string, seed uint64, thorough bool) *Scenario {
	g := newG(seed)
	sc := &Scenario{Family: "session", Prop: prop, Seed: g.Uint64()}
	sc.HorizonMs = g.rng(1000, 2000)
	limit := int64(g.pick(1, 10, 100, 1000, 100000))
	o := OptSpec{AllowUpgrades: true, CompThreshold: -1, MaxBuf: limit, AllowEIO3: true}
	o.Transports = []string{"polling", "websocket", "webtransport"}
	o.PingIntervalMs, o.PingTimeoutMs = 1000, 1000
	sc.Opts = o
	canaries(g, sc, true)
	for i := range sc.Clients {
		sz := 8
		if limit < 10 {
			sz = 0
		}
		for k := range sc.Clients[i].Sends {
			sc.Clients[i].Sends[k].Size = sz
			if limit == 1 {
				sc.Clients[i].Sends = nil
				break
			}
		}
	}
	sizes := []int64{limit - 1, limit, limit + 1, limit + 2, 2 * limit, limit + 100000, limit + 1<<20}
	x := ClientSpec{Name: "x1", Transport: "polling", EIO: 4, StartMs: g.pick(0, 100)}
	mode := g.IntN(7)
	if mode == 6 {
		// an oversized data request that overlaps another data request of the same session (held in flight by a
		// slow message listener): it is refused as an overlap, and refusing it must not cost more than the limit either
		base := "EIO=4&transport=polling"
		x.Raw = append(x.Raw, RawOp{Op: "http", Method: "GET", Query: base})
		hdr := map[string]string{"Content-Type": "text/plain;charset=UTF-8"}
		x.Raw = append(x.Raw, RawOp{Op: "http", Method: "POST", Query: base, UseSid: true, Hdr: hdr, Body: []byte("4"), Async: true, AtMs: 20})
		sc.Reent = append(sc.Reent, ReentSpec{Event: "message", Call: "sleep", Ms: g.pick(30, 80), Sess: "x1", Nth: 1})
		sz := sizes[2+g.IntN(len(sizes)-2)]
		x.Raw = append(x.Raw, RawOp{Op: "http", Method: "POST", Query: base, UseSid: true, Hdr: hdr, BodyGen: sz, NoCL: g.p(0.5), AtMs: g.pick(5, 10, 20)})
	} else if mode == 4 || mode == 5 {
		// the limit must hold on a connection that joined the session as an upgrade candidate, too:
		// polling handshake, candidate with the session's id, probe, upgrade, then frames around the limit
		x.Raw = append(x.Raw, RawOp{Op: "http", Method: "GET", Query: "EIO=4&transport=polling"})
		if mode == 4 {
			x.Raw = append(x.Raw, RawOp{Op: "ws-open", Query: "EIO=4&transport=websocket", UseSid: true})
			x.Raw = append(x.Raw, RawOp{Op: "ws-frame", Conn: 0, Frame: &RawFrame{Op: 1, Fin: true, Payload: []byte("2probe")}})
			x.Raw = append(x.Raw, RawOp{Op: "ws-frame", Conn: 0, AtMs: g.pick(20, 150), Frame: &RawFrame{Op: 1, Fin: true, Payload: []byte("5")}})
		} else {
			x.Raw = append(x.Raw, RawOp{Op: "wt-open", UseSid: true})
			x.Raw = append(x.Raw, RawOp{Op: "wt-raw", Conn: 0, Bytes: ref.AppendWTFrame(nil, ref.WTMsg{Data: []byte("2probe")})})
			x.Raw = append(x.Raw, RawOp{Op: "wt-raw", Conn: 0, AtMs: g.pick(20, 150), Bytes: ref.AppendWTFrame(nil, ref.WTMsg{Data: []byte("5")})})
		}
		for i, n := 0, g.rng(1, 3); i < n; i++ {
			sz := sizes[g.IntN(len(sizes))]
			if sz < 1 {
				sz = 1
			}
			if mode == 4 {
				x.Raw = append(x.Raw, RawOp{Op: "ws-frame", Conn: 0, AtMs: g.pick(5, 30), Frame: &RawFrame{Op: 1, Fin: true, GenLen: int(sz)}})
			} else {
				x.Raw = append(x.Raw, RawOp{Op: "wt-raw", Conn: 0, AtMs: g.pick(5, 30), Bytes: ref.AppendWTFrame(nil, ref.WTMsg{Data: []byte("4" + strings.Repeat("w", int(sz)-1))})})
			}
		}
	} else if mode == 0 || mode == 1 {
		eio := g.pick(4, 4, 3)
		x.EIO = eio
		base := "EIO=" + strconv.Itoa(eio) + "&transport=polling"
		x.Raw = append(x.Raw, RawOp{Op: "http", Method: "GET", Query: base})
		for i, n := 0, g.rng(1, 4); i < n; i++ {
			sz := sizes[g.IntN(len(sizes))]
			if sz < 1 {
				sz = 1
			}
			op := RawOp{Op: "http", Method: "POST", Query: base, UseSid: true, Hdr: map[string]string{"Content-Type": "text/plain;charset=UTF-8"}, NoCL: g.p(0.5), AtMs: g.pick(0, 20)}
			if eio == 4 && limit >= 10 && g.p(0.2) {
				// multi-byte text: more bytes than the limit, fewer characters than the limit
				k := g.pick(int(limit)/2+1, int(limit)-1, int(limit)/2+2)
				op.Body = []byte("4" + strings.Repeat("\u00e9", k))
			} else if eio == 4 && g.p(0.7) {
				op.BodyGen = sz // one message packet of sz-1 payload bytes
			} else if eio == 4 {
				// several packets, total around the limit
				k := g.rng(2, 5)
				var ps []ref.Packet
				for j := 0; j < k; j++ {
					ps = append(ps, ref.Packet{Type: 4, Data: []byte(strings.Repeat("m", int(sz)/k))})
				}
				op.Body = ref.EncodePayloadV4(ps)
			} else {
				b, _ := ref.EncodePayloadV3([]ref.Packet{{Type: 4, Data: []byte(strings.Repeat("m", int(min64(sz, 200000))))}}, true)
				op.Body = b
			}
			x.Raw = append(x.Raw, op)
		}
	} else if mode == 2 {
		x.Raw = append(x.Raw, RawOp{Op: "ws-open", Query: "EIO=4&transport=websocket"})
		if g.p(0.3) {
			// the application's connection listener takes its time: frames that arrive meanwhile are read by a
			// reader that has been running since the transport was constructed - with the limit in force
			sc.Reent = append(sc.Reent, ReentSpec{Event: "connection", Call: "sleep", Ms: g.pick(10, 40), Sess: "x1", Nth: 1})
			x.EarlyWS = true
		}
		for i, n := 0, g.rng(1, 3); i < n; i++ {
			sz := sizes[g.IntN(len(sizes))]
			if sz < 1 {
				sz = 1
			}
			if g.p(0.3) && sz > 4 {
				// fragmented message whose total exceeds / meets the size
				h := int(sz / 2)
				x.Raw = append(x.Raw, RawOp{Op: "ws-frame", Conn: 0, Frame: &RawFrame{Op: 1, Fin: false, GenLen: h}})
				x.Raw = append(x.Raw, RawOp{Op: "ws-frame", Conn: 0, Frame: &RawFrame{Op: 0, Fin: true, GenLen: int(sz) - h}})
			} else {
				x.Raw = append(x.Raw, RawOp{Op: "ws-frame", Conn: 0, AtMs: g.pick(0, 10), Frame: &RawFrame{Op: 1, Fin: true, GenLen: int(sz)}})
			}
		}
	} else {
		x.Raw = append(x.Raw, RawOp{Op: "wt-open", Bytes: ref.AppendWTFrame(nil, ref.WTMsg{Data: []byte("0")})})
		for i, n := 0, g.rng(1, 3); i < n; i++ {
			sz := sizes[g.IntN(len(sizes))]
			if sz < 1 {
				sz = 1
			}
			b := ref.AppendWTFrame(nil, ref.WTMsg{Data: []byte("4" + strings.Repeat("w", int(sz)-1))})
			if g.p(0.2) { // declare more than is sent
				b = b[:len(b)/2]
			}
			x.Raw = append(x.Raw, RawOp{Op: "wt-raw", Conn: 0, Bytes: b, AtMs: g.pick(0, 10)})
		}
	}
	sc.Clients = append(sc.Clients, x)
	sc.Policy, sc.HotFuncs = genPolicy(g, []string{"polling.onDataRequest"}, 8000)
	sc.MaxSteps = 120000
	return sc
}

func min64(a, b int64) int64 {
	if a < b {
		return a
	}
	return b
}

// oracleC10: the maximum payload size holds on every inbound path.
func oracleC10(f *sessionFam, w *World, res *Result) []Violation {
	l := &vlist{prop: "C10"}
	limit := f.sc.Opts.MaxBuf
	if limit == 0 {
		limit = 1000000
	}
	for _, e := range w.evs("", "message") {
		if e.N > limit {
			tr := transportOf(e.St)
			l.add("no-oversized-message-delivered", tr, fmt.Sprintf("%s: a message of %d bytes was delivered over %s, maximum payload is %d", e.Sess, e.N, tr, limit))
		}
	}
	for _, r := range w.resps {
		if r.Method != "POST" || r.Client == "prober" {
			continue
		}
		if _, ok := pollingReq(r); !ok {
			continue
		}
		declared := "declared-length"
		size := int64(-1)
		sp := f.spec(r.Client)
		if sp != nil {
			for _, op := range sp.Raw {
				_ = op
			}
		}
		if r.BodyRead > limit+64*1024 {
			if r.NoCL {
				declared = "unknown-length"
			}
			l.add("stops-consuming-oversized-body", declared, fmt.Sprintf("%s: data request #%d: the server pulled %d bytes from the body, limit is %d (+64 KiB slack)", r.Client, r.ID, r.BodyRead, limit))
		}
		_ = size
		if r.BodySize > limit && r.NWH > 0 && r.Status != 413 && r.Status != 400 {
			d := "declared-length"
			if r.NoCL {
				d = "unknown-length"
			}
			l.add("oversized-body-refused-413", d+"/got-"+strconv.Itoa(r.Status), fmt.Sprintf("%s: data request #%d with a body of %d bytes (limit %d, %s) was answered %d", r.Client, r.ID, r.BodySize, limit, d, r.Status))
		}
	}
	// an oversized WebSocket / WebTransport frame terminates that connection
	for _, c := range f.sc.Clients {
		if len(c.Raw) == 0 || !f.ended {
			continue
		}
		over, run := false, int64(0)
		for _, op := range c.Raw {
			switch {
			case op.Op == "ws-frame" && op.Frame != nil:
				n := int64(op.Frame.GenLen)
				if n == 0 {
					n = int64(len(op.Frame.Payload))
				}
				run += n
				if run > limit {
					over = true
				}
				if op.Frame.Fin {
					run = 0
				}
			case op.Op == "wt-raw" && len(op.Bytes) > 0:
				if ms, _, _ := ref.DecodeWTStream(op.Bytes); len(ms) > 0 && int64(len(ms[0].Data)) > limit {
					over = true
				}
			}
		}
		opened := w.evs(c.Name, "c-raw-ws-open", "c-raw-wt-open")
		if over && len(opened) > 0 && (opened[0].N == 101 || opened[0].N == 200) && len(w.evs(c.Name, "c-raw-stream-end")) == 0 {
			l.add("oversized-frame-ends-connection", "", fmt.Sprintf("%s sent a frame above the maximum payload (%d) but its connection was still open at the end", c.Name, limit))
		} else if over && len(opened) > 0 && opened[0].N == 101 {
			// "terminates that connection": the server hangs up - a close frame alone is a request that a hostile
			// peer ignores, keeping the connection (and the server's descriptor) for as long as it likes
			for _, r := range w.resps {
				if r.Client != c.Name || !r.Hijacked {
					continue
				}
				if ce, ok := r.conn.(*connEnd); ok && (!ce.isClosed || ce.closedAt > f.endAt) {
					l.add("oversized-frame-ends-connection", "server-never-hung-up", fmt.Sprintf("%s sent a WebSocket message above the maximum payload (%d); the session was closed but the server had not closed the connection by the end of the run", c.Name, limit))
					break
				}
			}
		}
	}
	// other sessions unaffected
	for _, c := range f.sc.Clients {
		if !c.Canary || len(w.evs(c.Name, "connection")) == 0 || f.sc.Prop != "C10" {
			continue
		}
		if st := f.snap[c.Name]; f.ended && readyOf(st) != "open" {
			reason := ""
			if ce := w.evs(c.Name, "close"); len(ce) > 0 {
				reason = ce[0].S
			}
			l.add("other-sessions-unaffected", reason, fmt.Sprintf("canary %s is %s at the end (close reason %q)", c.Name, st, reason))
		}
	}
	return l.out
}
