package sim

// Protocol-conformant client actor (polling v3/v4, b64, JSONP, WebSocket,
// WebTransport, upgrade driver) with a fault plan.  It decodes everything with
// the independent reference codecs in verif/sim/ref, never with the
// repository's parser.

import (
	"bufio"
	"encoding/json"
	"fmt"
	"io"
	"net/http"
	"net/url"
	"strconv"
	"strings"
	"time"

	"github.com/zishang520/engine.io/v2/simrt"
	"verif/sim/ref"
)

const (
	tOpen = iota
	tClose
	tPing
	tPong
	tMessage
	tUpgrade
	tNoop
)

type streamConn interface {
	// sendPacket writes one engine.io packet as one frame
	sendPacket(p ref.Packet) error
	// recvPacket blocks for the next packet; err on close
	recvPacket() (ref.Packet, error)
	close()
	kind() string
}

type Client struct {
	w    *World
	sp   *ClientSpec
	name string

	sid          string
	pingInterval time.Duration
	pingTimeout  time.Duration
	upgrades     []string
	maxPayload   int64
	openAt       time.Duration

	transport   string
	opened      bool
	closed      bool // client considers the connection gone
	stopped     bool // silent (partition)
	paused      bool
	pausing     bool
	polling     bool
	posting     bool
	lateN       int
	pollAlive   bool
	srvOut      []*half             // server->client halves of this client's WebSocket connections (back-pressure)
	deadStreams map[streamConn]bool // candidate connections whose stream has ended
	upgrading   bool
	sendQ       []ref.Packet
	pollResp    *Resp
	postResp    *Resp
	stream      streamConn // current stream transport after upgrade or direct ws/wt
	cand        streamConn
	pingN       int
	nPoll       int
	nTask       int
	why         string
	rawConns    []rawConn
}

func (c *Client) rec(kind, s string, n int64) int { return c.w.rec(c.name, kind, s, n) }

func (c *Client) spawn(what string, f func()) {
	c.nTask++
	simrt.GoActor(fmt.Sprintf("%s/%s#%d", c.name, what, c.nTask), f)
}

func (c *Client) path() string {
	if c.sp.Path != "" {
		return c.sp.Path
	}
	return "/engine.io/"
}

func (c *Client) query(transport string) string {
	q := "EIO=" + strconv.Itoa(c.sp.EIO) + "&transport=" + transport
	if c.sp.EIO == 0 {
		q = "transport=" + transport
	}
	if c.sp.B64 {
		q += "&b64=1"
	}
	if c.sp.JSONP && transport == "polling" {
		q += "&j=" + url.QueryEscape(c.sp.J)
	}
	if c.sid != "" {
		q += "&sid=" + url.QueryEscape(c.sid)
	}
	return q
}

func (c *Client) hdr() map[string]string {
	h := map[string]string{}
	if c.sp.AcceptEnc != "" {
		h["Accept-Encoding"] = c.sp.AcceptEnc
	}
	if c.sp.Origin != "" {
		h["Origin"] = c.sp.Origin
	}
	if c.sp.UA != "" {
		h["User-Agent"] = c.sp.UA
	}
	return h
}

func (c *Client) lat() {
	if c.sp.LatencyMs > 0 {
		simrt.Sleep(time.Duration(c.sp.LatencyMs) * time.Millisecond)
	}
}

func (c *Client) eio() int {
	if c.sp.EIO == 4 {
		return 4
	}
	return 3
}

// decodePoll decodes a poll response body with the reference codecs.
func (c *Client) decodePoll(r *Resp) ([]ref.Packet, error) {
	body := r.Body
	if ce := r.H.Get("Content-Encoding"); ce != "" {
		b, err := ref.DecodeContent(ce, body)
		if err != nil {
			// a client that cannot decode the body sees a transport error;
			// the C16 oracle reports the cause, here we fall back so that
			// the session can go on if the body is raw deflate
			if raw, ok := ref.IsRawDeflate(body); ok && ce == "deflate" {
				b = raw
			} else {
				return nil, fmt.Errorf("content-encoding %s: %v", ce, err)
			}
		}
		body = b
	}
	return decodePollBody(c.eio(), c.sp.JSONP, r.H.Get("Content-Type"), body)
}

func decodePollBody(eio int, jsonp bool, ctype string, body []byte) ([]ref.Packet, error) {
	if jsonp {
		_, _, payload, err := ref.ParseJSONP(body)
		if err != nil {
			return nil, err
		}
		body = []byte(payload)
	}
	if eio == 4 {
		return ref.DecodePayloadV4(body)
	}
	return ref.DecodePayloadV3(body, strings.HasPrefix(ctype, "application/octet-stream"))
}

// encodePost encodes packets for a data request.
func (c *Client) encodePost(ps []ref.Packet) (body []byte, ctype string) {
	if len(ps) == 1 && ps[0].Type == 9 {
		raw := append([]byte("9"), ps[0].Data...)
		if c.eio() != 4 {
			raw = []byte(fmt.Sprintf("%d:%s", len(raw), raw))
		}
		if c.sp.JSONP {
			return ref.EncodeJSONPForm(string(raw)), "application/x-www-form-urlencoded"
		}
		return raw, "text/plain;charset=UTF-8"
	}
	if c.eio() == 4 {
		if c.sp.JSONP {
			return ref.EncodeJSONPForm(string(ref.EncodePayloadV4(ps))), "application/x-www-form-urlencoded"
		}
		return ref.EncodePayloadV4(ps), "text/plain;charset=UTF-8"
	}
	b, bin := ref.EncodePayloadV3(ps, !c.sp.B64)
	if c.sp.JSONP {
		return ref.EncodeJSONPForm(string(b)), "application/x-www-form-urlencoded"
	}
	if bin {
		return b, "application/octet-stream"
	}
	return b, "text/plain;charset=UTF-8"
}

func pktString(p ref.Packet) string {
	k := "t:"
	if p.Binary {
		k = "b:"
	}
	return strconv.Itoa(p.Type) + "|" + k + string(p.Data)
}

// run is the client's main task.
func (c *Client) run() {
	simrt.Sleep(time.Duration(c.sp.StartMs) * time.Millisecond)
	if len(c.sp.Raw) > 0 {
		c.runRaw()
		return
	}
	c.transport = c.sp.Transport
	switch c.sp.Transport {
	case "polling":
		c.lat()
		req, r := c.w.newRequest(c.name, ReqSpec{Method: "GET", Path: c.path(), Query: c.query("polling"), Hdr: c.hdr()})
		if c.sp.AbortHS {
			// the connection is lost while the handshake is being served: where exactly is the scheduler's choice
			c.spawn("abort-hs", func() {
				if !r.Returned {
					c.rec("c-handshake-aborted", "", 0)
					r.abort()
				}
			})
		}
		c.w.serveReq(c.w.H, req, r)
		c.lat()
		if r.Aborted {
			c.rec("c-handshake", "", int64(r.Status))
			c.fail("handshake aborted by client")
			return
		}
		c.rec("c-handshake", "", int64(r.Status))
		if r.Status != 200 {
			c.fail("handshake status " + strconv.Itoa(r.Status))
			return
		}
		ps, err := c.decodePoll(r)
		if err != nil {
			c.fail("handshake decode: " + err.Error())
			return
		}
		c.onPackets(ps)
		if !c.opened {
			c.fail("no open packet")
			return
		}
		c.spawn("poll", c.pollLoop)
		c.spawn("writer", c.writeLoop)
	case "websocket":
		s, r := c.openWS(c.query("websocket"))
		if s == nil {
			c.rec("c-handshake", "", int64(r.Status))
			c.fail("ws handshake refused")
			return
		}
		c.stream = s
		c.rec("c-handshake", "", 101)
		c.spawn("reader", func() { c.streamReader(s) })
		c.spawn("writer", c.writeLoop)
	case "webtransport":
		s, r := c.openWT("")
		if s == nil {
			st := 0
			if r != nil {
				st = r.Status
			}
			c.rec("c-handshake", "", int64(st))
			c.fail("wt handshake refused")
			return
		}
		c.stream = s
		c.rec("c-handshake", "", 200)
		c.spawn("reader", func() { c.streamReader(s) })
		c.spawn("writer", c.writeLoop)
	}
	c.spawn("plan", c.plan)
}

// plan schedules the client's own timed behaviour relative to the open instant.
func (c *Client) plan() {
	simrt.Block(func() bool { return c.opened || c.closed })
	if c.closed {
		return
	}
	type item struct {
		at int
		f  func()
	}
	var items []item
	for i := range c.sp.Sends {
		m := c.sp.Sends[i]
		items = append(items, item{m.AtMs, func() {
			if c.closed || c.stopped {
				return
			}
			data := []byte(m.Text)
			if m.Text == "" {
				data = payloadForC(m.ID, m.Size, m.Chars)
			}
			c.enqueue(ref.Packet{Type: tMessage, Data: data, Binary: m.Binary})
		}})
	}
	if c.sp.Upgrade != "" {
		items = append(items, item{c.sp.UpgradeAtMs, func() { c.spawn("upgrade", func() { c.probe(c.sp.Upgrade, nil) }) }})
	}
	if len(c.sp.Cand) > 0 {
		items = append(items, item{c.sp.CandAtMs, func() { c.spawn("cand", func() { c.probe(c.sp.CandKind, c.sp.Cand) }) }})
	}
	if c.sp.Retry {
		items = append(items, item{c.sp.RetryAtMs, func() {
			c.spawn("retry", func() {
				if !c.closed && !c.stopped && c.transport == "polling" && !c.upgrading {
					c.probe(c.sp.Upgrade2(), nil)
				}
			})
		}})
	}
	for i := range c.sp.Faults {
		f := c.sp.Faults[i]
		items = append(items, item{f.AtMs, func() { c.doFault(f) }})
	}
	if c.sp.StopAtMs > 0 {
		items = append(items, item{c.sp.StopAtMs, func() {
			c.stopped = true
			c.w.fault("silence")
			c.rec("c-silent", "", 0)
			for _, h := range c.srvOut {
				h.mu.Lock()
				h.capacity = c.sp.RecvWindow
				h.mu.Unlock()
			}
		}})
	}
	if c.sp.CloseAtMs > 0 {
		items = append(items, item{c.sp.CloseAtMs, func() { c.orderlyClose() }})
	}
	if c.eio() == 3 {
		// revision 3: the client pings
		iv := c.sp.V3PingMs
		if iv == 0 {
			iv = int(c.pingInterval / time.Millisecond)
		}
		if iv > 0 {
			c.spawn("v3ping", func() {
				for n := 0; ; n++ {
					simrt.Sleep(time.Duration(iv) * time.Millisecond)
					if c.closed || c.stopped {
						return
					}
					d := 0
					if len(c.sp.PongDelayMs) > 0 {
						d = c.sp.PongDelayMs[n%len(c.sp.PongDelayMs)]
					}
					if d < 0 {
						c.rec("c-ping-skipped", "", 0)
						return // stops pinging for good
					}
					if d > 0 {
						simrt.Sleep(time.Duration(d) * time.Millisecond)
					}
					c.rec("c-ping-sent", "", 0)
					c.enqueue(ref.Packet{Type: tPing})
				}
			})
		}
	}
	// stable order by time then index
	for i := 1; i < len(items); i++ {
		for j := i; j > 0 && items[j].at < items[j-1].at; j-- {
			items[j], items[j-1] = items[j-1], items[j]
		}
	}
	t0 := c.openAt
	for _, it := range items {
		d := t0 + time.Duration(it.at)*time.Millisecond - simrt.Now()
		if d > 0 {
			simrt.Sleep(d)
		}
		it.f()
	}
}

func (sp *ClientSpec) Upgrade2() string {
	if sp.Upgrade != "" {
		return sp.Upgrade
	}
	if sp.CandKind != "" {
		return sp.CandKind
	}
	return "websocket"
}

func kindPrefix(bin bool) string {
	if bin {
		return "b:"
	}
	return "t:"
}

// payloadFor builds the unique payload of message id with the given size.
func payloadFor(id string, size int) []byte { return payloadForC(id, size, "") }

// payloadForC pads the unique id up to size bytes with characters of a class:
// "" plain, "html" (markup-significant characters and script terminators), "esc"
// (backslashes, literal backslash-n, real newlines, quotes), "uni" (multi-byte and
// astral-plane characters, line separators U+2028/2029), "num" (digits and colons,
// which look like revision-3 length prefixes).  A text message may hold any of these.
func payloadForC(id string, size int, chars string) []byte {
	b := []byte(id + ":")
	var alpha []string
	switch chars {
	case "html":
		alpha = []string{"<", ">", "&", "</script>", "<!--", "'", "\"", "<script>", "&amp;", "a"}
	case "esc":
		alpha = []string{"\\", "\\n", "\n", "\r", "\t", "\"", "\\\\n", "n", "\\\\", "/"}
	case "uni":
		alpha = []string{"\u2028", "\u2029", "\u00e9", "\U0001F600", "\u4e2d", "z", "\ufeff", "\u0301"}
	case "num":
		alpha = []string{":", "1", "0", "9:", "4", "2:4", "b4", "-1:", "255"}
	default:
		for i := 0; len(b) < size; i++ {
			b = append(b, "abcdefghijklmnopqrstuvwxyz0123456789-_ABCDEFGHIJKLMNOPQRSTUVWXYZ"[(i*7+len(id))%64])
		}
		return b
	}
	for i := 0; len(b) < size; i++ {
		b = append(b, alpha[(i*7+len(id))%len(alpha)]...)
	}
	return b
}

func (c *Client) fail(why string) {
	if !c.closed {
		c.closed = true
		c.why = why
		c.rec("c-gone", why, 0)
	}
}

func (c *Client) enqueue(p ref.Packet) {
	c.sendQ = append(c.sendQ, p)
}

// onPackets processes packets received on the current transport.
func (c *Client) onPackets(ps []ref.Packet) {
	for _, p := range ps {
		if c.closed {
			return
		}
		switch p.Type {
		case tOpen:
			var o struct {
				Sid          string   `json:"sid"`
				Upgrades     []string `json:"upgrades"`
				PingInterval int64    `json:"pingInterval"`
				PingTimeout  int64    `json:"pingTimeout"`
				MaxPayload   int64    `json:"maxPayload"`
			}
			if err := json.Unmarshal(p.Data, &o); err != nil {
				c.fail("bad open packet: " + err.Error())
				return
			}
			first := !c.opened
			c.sid, c.upgrades, c.maxPayload = o.Sid, o.Upgrades, o.MaxPayload
			c.pingInterval = time.Duration(o.PingInterval) * time.Millisecond
			c.pingTimeout = time.Duration(o.PingTimeout) * time.Millisecond
			c.opened = true
			c.openAt = simrt.Now()
			c.w.recx(Ev{Sess: c.name, Kind: "c-open", S: string(p.Data), N: boolN(first)})
		case tMessage:
			c.w.recx(Ev{Sess: c.name, Kind: "c-recv", S: kindPrefix(p.Binary) + string(p.Data), P: []string{c.transport}})
		case tPing:
			c.pingN++
			n := c.pingN
			c.rec("c-ping", string(p.Data), int64(n))
			if c.eio() == 4 {
				d := 0
				if len(c.sp.PongDelayMs) > 0 {
					d = c.sp.PongDelayMs[(n-1)%len(c.sp.PongDelayMs)]
				}
				switch {
				case d < 0:
					c.rec("c-pong-withheld", "", int64(n))
				case d == 0:
					if !c.stopped {
						c.rec("c-pong-sent", "", int64(n))
						c.enqueue(ref.Packet{Type: tPong})
					}
				default:
					c.spawn("pong", func() {
						simrt.Sleep(time.Duration(d) * time.Millisecond)
						if !c.closed && !c.stopped {
							c.rec("c-pong-sent", "", int64(n))
							c.enqueue(ref.Packet{Type: tPong})
						}
					})
				}
			}
		case tPong:
			c.rec("c-pong", string(p.Data), 0)
		case tNoop:
			c.rec("c-noop", "", 0)
		case tClose:
			c.rec("c-close-pkt", "", 0)
			c.fail("server sent close")
			return
		default:
			c.rec("c-other", pktString(p), 0)
		}
	}
}

func boolN(b bool) int64 {
	if b {
		return 1
	}
	return 0
}

// pollLoop is engine.io-client's polling read side.
func (c *Client) pollLoop() {
	c.pollAlive = true
	defer func() { c.pollAlive = false }()
	for !c.closed && !c.stopped && c.transport == "polling" {
		if c.pausing || c.paused {
			c.paused = true
			return
		}
		c.polling = true
		c.lat()
		req, r := c.w.newRequest(c.name, ReqSpec{Method: "GET", Path: c.path(), Query: c.query("polling"), Hdr: c.hdr()})
		c.pollResp = r
		c.nPoll++
		c.w.serveReq(c.w.H, req, r)
		c.lat()
		c.pollResp = nil
		c.polling = false
		if r.Aborted {
			c.fail("poll aborted by client")
			return
		}
		if c.stopped {
			return
		}
		if c.transport != "polling" {
			// the client switched transports while this poll was pending (impatient upgrade): what the old
			// transport still brings is of no concern to it any more
			c.rec("c-poll-after-switch", "", int64(r.Status))
			return
		}
		if r.Status != 200 {
			c.rec("c-poll-error", "", int64(r.Status))
			c.fail("poll status " + strconv.Itoa(r.Status))
			return
		}
		ps, err := c.decodePoll(r)
		if err != nil {
			c.rec("c-poll-undecodable", err.Error(), 0)
			c.fail("poll body undecodable: " + err.Error())
			return
		}
		c.onPackets(ps)
		if c.sp.PollGapMs > 0 {
			simrt.Sleep(time.Duration(c.sp.PollGapMs) * time.Millisecond)
		}
	}
	if c.pausing {
		c.paused = true
	}
}

// writeLoop flushes the send queue on the current transport, one request or
// frame batch at a time.
func (c *Client) writeLoop() {
	for {
		simrt.Block(func() bool {
			return c.closed || (len(c.sendQ) > 0 && !c.stopped && !c.pausing)
		})
		if c.closed {
			return
		}
		q := c.sendQ
		c.sendQ = nil
		if c.stream != nil && c.transport != "polling" {
			for _, p := range q {
				if p.Type == tMessage {
					// submission order is the order on the wire, not the order of enqueueing
					c.w.recx(Ev{Sess: c.name, Kind: "c-send", S: kindPrefix(p.Binary) + string(p.Data)})
				}
				if err := c.stream.sendPacket(p); err != nil {
					c.rec("c-write-error", err.Error(), 0)
					c.fail("stream write: " + err.Error())
					return
				}
			}
			simrt.Yield(-5)
			continue
		}
		// a garbage packet travels alone so that the reference encoders never see it
		if len(q) > 1 {
			for i, p := range q {
				if p.Type == 9 {
					c.sendQ = append(append([]ref.Packet(nil), q[i+1:]...), c.sendQ...)
					if i == 0 {
						q = q[:1]
					} else {
						c.sendQ = append([]ref.Packet{p}, c.sendQ...)
						q = q[:i]
					}
					break
				}
			}
		}
		body, ctype := c.encodePost(q)
		h := c.hdr()
		h["Content-Type"] = ctype
		if c.sp.AcceptEncPost != "" {
			h["Accept-Encoding"] = c.sp.AcceptEncPost
		}
		c.posting = true
		c.lat()
		req, r := c.w.newRequest(c.name, ReqSpec{Method: "POST", Path: c.path(), Query: c.query("polling"), Hdr: h, Body: body, NoCL: c.sp.NoCL})
		c.postResp = r
		var pl []string
		seenClose := false
		for _, p := range q {
			if p.Type == tClose {
				seenClose = true
			}
			if p.Type == tMessage {
				pl = append(pl, kindPrefix(p.Binary)+string(p.Data))
				kind := "c-send"
				if seenClose {
					kind = "c-send-after-close" // behind a close packet in the same payload: never to be delivered
				}
				c.w.recx(Ev{Sess: c.name, Kind: kind, S: kindPrefix(p.Binary) + string(p.Data)})
			}
		}
		c.w.recx(Ev{Sess: c.name, Kind: "c-post-start", N: int64(r.ID), P: pl})
		c.w.serveReq(c.w.H, req, r)
		c.lat()
		c.postResp = nil
		c.posting = false
		if r.Aborted {
			c.fail("post aborted by client")
			return
		}
		if r.Status != 200 || string(r.Body) != "ok" {
			c.rec("c-post-error", string(r.Body), int64(r.Status))
			if c.transport != "polling" {
				// the client switched transports while this request was in flight (impatient upgrade): the old
				// transport's request is of no concern to it any more
				continue
			}
			c.fail("post status " + strconv.Itoa(r.Status))
			return
		}
		c.rec("c-post-ok", "", int64(len(q)))
	}
}

// streamReader reads packets from a WebSocket / WebTransport connection.
func (c *Client) streamReader(s streamConn) {
	for {
		p, err := s.recvPacket()
		if err != nil {
			c.rec("c-stream-end", s.kind()+": "+err.Error(), 0)
			if c.stream == s {
				c.fail("stream closed: " + err.Error())
			} else {
				if c.deadStreams == nil {
					c.deadStreams = map[streamConn]bool{}
				}
				c.deadStreams[s] = true
			}
			return
		}
		if c.stopped && c.sp.RecvWindow > 0 {
			// a silent peer that has also stopped reading: what the server writes from now on piles up
			simrt.Block(func() bool { return c.closed })
			return
		}
		if c.stopped {
			continue
		}
		if c.stream == s {
			c.onPackets([]ref.Packet{p})
		} else {
			c.rec("c-cand-recv", pktString(p), 0)
		}
	}
}

// probe is engine.io-client's upgrade procedure; with a script it plays a
// (possibly misbehaving) candidate instead.
func (c *Client) probe(kind string, script []CandOp) {
	if c.closed || c.stopped || c.transport != "polling" {
		return
	}
	var s streamConn
	if kind == "webtransport" {
		s, _ = c.openWT(c.sid)
	} else {
		s, _ = c.openWS(c.query("websocket"))
	}
	if s == nil {
		c.rec("c-probe-refused", kind, 0)
		return
	}
	c.cand = s
	c.rec("c-probe-start", kind, 0)
	if script != nil {
		c.playCandidate(s, script)
		return
	}
	c.upgrading = true
	if err := s.sendPacket(ref.Packet{Type: tPing, Data: []byte("probe")}); err != nil {
		c.rec("c-probe-failed", "write: "+err.Error(), 0)
		c.upgrading = false
		return
	}
	p, err := s.recvPacket()
	if err != nil || p.Type != tPong || string(p.Data) != "probe" {
		msg := "unexpected " + pktString(p)
		if err != nil {
			msg = err.Error()
		}
		c.rec("c-probe-failed", msg, 0)
		c.upgrading = false
		s.close()
		return
	}
	c.rec("c-probe-pong", kind, 0)
	if c.closed || c.stopped {
		s.close()
		return
	}
	// pause the polling transport: wait for the poll in flight (the server
	// releases it with a noop) and for the write in flight
	c.pausing = true
	simrt.Block(func() bool { return c.closed || (!c.polling && !c.posting) })
	if c.closed {
		s.close()
		return
	}
	c.paused = true
	c.rec("c-paused", "", 0)
	if err := s.sendPacket(ref.Packet{Type: tUpgrade}); err != nil {
		c.rec("c-probe-failed", "write upgrade: "+err.Error(), 0)
		c.fail("upgrade write failed")
		return
	}
	c.stream = s
	c.transport = kind
	c.pausing = false
	c.upgrading = false
	c.rec("c-upgraded", kind, 0)
	c.spawn("reader", func() { c.streamReader(s) })
}

// playCandidate runs a scripted candidate; the session stays on polling.
func (c *Client) playCandidate(s streamConn, script []CandOp) {
	gotPong, sentProbe, dirty := false, false, false
	for _, op := range script {
		switch op.Op {
		case "ping", "pong", "msg", "noop", "closepkt", "garbage":
			dirty = true // anything but the probe makes the server drop the candidate
		}
		if op.WaitMs > 0 {
			simrt.Sleep(time.Duration(op.WaitMs) * time.Millisecond)
		}
		var err error
		switch op.Op {
		case "probe":
			err = s.sendPacket(ref.Packet{Type: tPing, Data: []byte("probe")})
			sentProbe = err == nil
		case "waitpong":
			var p ref.Packet
			p, err = s.recvPacket()
			if err == nil {
				gotPong = p.Type == tPong && string(p.Data) == "probe"
				c.rec("c-cand-recv", pktString(p), 0)
			}
		case "ping":
			err = s.sendPacket(ref.Packet{Type: tPing, Data: []byte(op.Arg)})
		case "pong":
			err = s.sendPacket(ref.Packet{Type: tPong, Data: []byte(op.Arg)})
		case "msg":
			if c.stream == s {
				// after the switch: an ordinary message on the session's transport
				c.w.recx(Ev{Sess: c.name, Kind: "c-send", S: "t:" + op.Arg})
			} else {
				c.w.recx(Ev{Sess: c.name, Kind: "c-cand-send", S: "t:" + op.Arg})
			}
			err = s.sendPacket(ref.Packet{Type: tMessage, Data: []byte(op.Arg)})
		case "noop":
			err = s.sendPacket(ref.Packet{Type: tNoop})
		case "closepkt":
			err = s.sendPacket(ref.Packet{Type: tClose})
		case "garbage":
			err = s.sendPacket(ref.Packet{Type: 9, Data: []byte(op.Arg)})
		case "upgrade":
			// a script that sends upgrade after a proper probe IS a conformant
			// switch as far as the server can tell; the client follows through.
			// The server answers a probe before it reads the next packet of the
			// stream, so 'probe ... upgrade' without an explicit wait is the same
			// thing: the client collects the pong first, as a real one would.
			if dirty {
				gotPong = false
			}
			for k := 0; sentProbe && !dirty && !gotPong && k < 8; k++ {
				p, rerr := s.recvPacket()
				if rerr != nil {
					c.rec("c-cand-end", rerr.Error(), 0)
					return
				}
				gotPong = p.Type == tPong && string(p.Data) == "probe"
				c.rec("c-cand-recv", pktString(p), 0)
			}
			watching := false
			if gotPong && op.Arg == "nopause" {
				// an impatient client: it switches without waiting for its poll and its data request in flight
				c.w.probe("upgrade_without_pause")
				c.pausing = true
			} else if gotPong {
				// while the polling transport is being paused the client keeps an eye on the candidate, as a real
				// one does: if the server drops it meanwhile (upgrade timeout) the client stays on polling
				watching = true
				c.spawn("reader", func() { c.streamReader(s) })
				c.pausing = true
				simrt.Block(func() bool { return c.closed || c.deadStreams[s] || (!c.polling && !c.posting) })
				if c.closed {
					s.close()
					return
				}
				if c.deadStreams[s] {
					c.rec("c-cand-end", "candidate lost while pausing", 0)
					c.resumePolling()
					return
				}
				c.paused = true
			}
			err = s.sendPacket(ref.Packet{Type: tUpgrade})
			if err == nil && gotPong {
				c.stream, c.transport = s, s.kind()
				c.pausing = false
				c.rec("c-upgraded", s.kind(), 0)
				if !watching {
					c.spawn("reader", func() { c.streamReader(s) })
				}
				if op.Arg == "nopause" {
					continue // the rest of the script is what the impatient client submits on its new transport
				}
				return
			}
			if gotPong {
				// the candidate was gone when the client wanted to switch: it stays on polling
				c.resumePolling()
			}
			c.rec("c-cand-upgrade-unprobed", "", 0)
		case "disconnect":
			s.close()
			c.rec("c-cand-disconnect", "", 0)
			return
		case "wait":
		}
		if err != nil {
			c.rec("c-cand-end", err.Error(), 0)
			return
		}
	}
	if c.stream == s {
		return // switched: the stream reader looks after the connection
	}
	// leave the candidate open and watch what the server does with it
	for {
		p, err := s.recvPacket()
		if err != nil {
			c.rec("c-cand-end", err.Error(), 0)
			return
		}
		c.rec("c-cand-recv", pktString(p), 0)
	}
}

func (c *Client) orderlyClose() {
	if c.closed {
		return
	}
	c.rec("c-close", c.transport, 0)
	if c.stream != nil && c.transport != "polling" {
		c.stream.sendPacket(ref.Packet{Type: tClose})
		c.stream.close()
		c.fail("client closed")
		return
	}
	c.enqueue(ref.Packet{Type: tClose})
	for i := 0; i < c.sp.CloseTrail; i++ {
		// packets behind the close packet, in the same payload
		c.enqueue(ref.Packet{Type: tMessage, Data: payloadFor(fmt.Sprintf("%s.trail%d", c.name, i), 14)})
	}
	c.spawn("closer", func() {
		simrt.Block(func() bool { return c.closed || len(c.sendQ) == 0 && !c.posting })
		c.fail("client closed")
	})
}

func (c *Client) doFault(f FaultSpec) {
	if c.closed || c.stopped {
		return
	}
	switch f.Kind {
	case "abort-poll":
		if r := c.pollResp; r != nil && !r.Returned {
			r.abort()
		}
	case "abort-post":
		if r := c.postResp; r != nil && !r.Returned {
			r.abort()
		}
	case "dup-poll":
		if c.transport == "polling" && c.pollResp != nil {
			c.w.fault("overlap-poll")
			c.spawn("dup", func() {
				r := c.w.serve(c.w.H, c.name, ReqSpec{Method: "GET", Path: c.path(), Query: c.query("polling"), Hdr: c.hdr()})
				c.lat()
				c.rec("c-dup-poll", "", int64(r.Status))
				if r.Status == 200 && !c.closed {
					// the server took it for an ordinary poll (the previous one had just been answered):
					// whatever it carries was delivered to this client
					if ps, err := c.decodePoll(r); err == nil {
						c.onPackets(ps)
					}
				}
			})
		}
	case "dup-post":
		if c.transport == "polling" {
			c.w.fault("overlap-post")
			c.spawn("dup", func() {
				c.w.recx(Ev{Sess: c.name, Kind: "c-send", S: "t:dup"})
				body, ct := c.encodePost([]ref.Packet{{Type: tMessage, Data: []byte("dup")}})
				h := c.hdr()
				h["Content-Type"] = ct
				r := c.w.serve(c.w.H, c.name, ReqSpec{Method: "POST", Path: c.path(), Query: c.query("polling"), Hdr: h, Body: body})
				c.rec("c-dup-post", "", int64(r.Status))
			})
		}
	case "late-post":
		// an impatient client: a second data request with a message of its own while the previous data request is
		// still being served (at a later instant than that one's arrival). A server that accepts it has to keep the
		// order of submission all the same; one that refuses it delivers nothing of it
		if c.transport == "polling" {
			c.w.fault("overlap-post")
			c.lateN++
			data := payloadFor(fmt.Sprintf("%s.late%d", c.name, c.lateN), 12)
			c.spawn("late", func() {
				c.w.recx(Ev{Sess: c.name, Kind: "c-send", S: "t:" + string(data)})
				body, ct := c.encodePost([]ref.Packet{{Type: tMessage, Data: data}})
				h := c.hdr()
				h["Content-Type"] = ct
				r := c.w.serve(c.w.H, c.name, ReqSpec{Method: "POST", Path: c.path(), Query: c.query("polling"), Hdr: h, Body: body})
				c.rec("c-late-post", "", int64(r.Status))
			})
		}
	case "reset":
		if c.stream != nil {
			c.w.fault("stream-reset")
			if rs, ok := c.stream.(interface{ reset() }); ok {
				rs.reset()
			} else {
				c.stream.close()
			}
			c.fail("client reset")
		}
	case "eof":
		if c.stream != nil {
			c.w.fault("stream-eof")
			c.stream.close()
			c.fail("client eof")
		}
	case "extra-pong":
		// an unsolicited (or duplicated) pong on a revision-4 session: the server accepts it like any pong
		if c.eio() == 4 {
			c.w.fault("extra-pong")
			n := 1
			if f.Arg > 1 {
				n = f.Arg
			}
			for i := 0; i < n; i++ {
				c.enqueue(ref.Packet{Type: tPong})
			}
		}
	case "bad-packet":
		c.w.fault("bad-packet")
		c.enqueue(ref.Packet{Type: 9, Data: []byte("zz")})
	case "wrong-heartbeat":
		c.w.fault("wrong-heartbeat")
		if c.eio() == 4 {
			c.enqueue(ref.Packet{Type: tPing})
		} else {
			c.enqueue(ref.Packet{Type: tPong})
		}
	}
}

// ---- WebSocket client ---------------------------------------------------------

type wsClient struct {
	c       *Client
	conn    *connEnd
	br      *bufio.Reader
	asm     ref.WSAssembler
	maskN   uint32
	eio     int
	b64     bool
	closed  bool
	NFrames int
}

func (c *Client) openWS(query string, extra ...map[string]string) (streamConn, *Resp) {
	sconn, cconn := pipe(c.w.clientAddr(c.name))
	if len(c.sp.Frag) > 0 {
		sconn.in.frag = c.sp.Frag
	}
	sconn.in.onFault = c.w.fault
	sconn.preemptibleWrites = true
	sconn.writeDelay = time.Duration(c.sp.WriteDelayMs) * time.Millisecond
	if c.sp.RecvWindow > 0 {
		// (the window bites once the client has gone silent and stopped reading, see plan())
		sconn.out.onFault = c.w.fault
		c.srvOut = append(c.srvOut, sconn.out)
	}
	h := c.hdr()
	h["Connection"] = "Upgrade"
	h["Upgrade"] = "websocket"
	h["Sec-WebSocket-Version"] = "13"
	h["Sec-WebSocket-Key"] = "dGhlIHNhbXBsZSBub25jZQ=="
	if c.w.Sc.Opts.PMD {
		h["Sec-WebSocket-Extensions"] = "permessage-deflate; server_no_context_takeover; client_no_context_takeover"
	}
	pth := c.path()
	for _, m := range extra {
		for k, v := range m {
			if k == ":path" {
				pth = v
				continue
			}
			h[k] = v
		}
	}
	c.lat()
	var r *Resp
	if c.sp.EarlyWS {
		// as on a real connection, the client sees the 101 as soon as the server has written it and goes ahead
		// while the server's handler is still busy with the handshake (the application's connection listener ...)
		var req *http.Request
		req, r = c.w.newRequest(c.name, ReqSpec{Method: "GET", Path: pth, Query: query, Hdr: h, Conn: sconn})
		done := false
		c.spawn("wsreq", func() { c.w.serveReq(c.w.H, req, r); done = true })
		simrt.Block(func() bool { return done || cconn.in.readable() })
		if done && !r.Hijacked {
			cconn.Close()
			return nil, r
		}
	} else {
		r = c.w.serve(c.w.H, c.name, ReqSpec{Method: "GET", Path: pth, Query: query, Hdr: h, Conn: sconn})
		if !r.Hijacked {
			cconn.Close()
			return nil, r
		}
	}
	br := bufio.NewReader(cconn)
	status, err := br.ReadString('\n')
	if err != nil || !strings.Contains(status, " 101 ") {
		// gorilla answered with an HTTP error on the hijacked connection
		c.rec("c-ws-handshake-error", strings.TrimSpace(status), 0)
		cconn.Close()
		return nil, r
	}
	for {
		line, err := br.ReadString('\n')
		if err != nil || line == "\r\n" {
			break
		}
	}
	return &wsClient{c: c, conn: cconn, br: br, eio: c.eio(), b64: c.sp.B64}, r
}

func (s *wsClient) kind() string { return "websocket" }

func (s *wsClient) mask() [4]byte {
	s.maskN++
	n := s.maskN * 2654435761
	return [4]byte{byte(n), byte(n >> 8), byte(n >> 16), byte(n >> 24)}
}

func (s *wsClient) sendPacket(p ref.Packet) error {
	var data []byte
	var bin bool
	if p.Type == 9 { // garbage
		data, bin = append([]byte("9"), p.Data...), false
	} else {
		data, bin = ref.EncodePacket(p, s.eio, !s.b64)
	}
	op := byte(1)
	if bin {
		op = 2
	}
	_, err := s.conn.Write(ref.AppendWSFrame(nil, ref.WSFrame{Fin: true, Op: op, Masked: true, Payload: data}, s.mask()))
	simrt.Settle()
	return err
}

func (s *wsClient) sendRaw(b []byte) error {
	_, err := s.conn.Write(b)
	simrt.Settle()
	return err
}

func (s *wsClient) recvPacket() (ref.Packet, error) {
	for {
		f, err := ref.ReadWSFrame(s.br)
		if err != nil {
			return ref.Packet{}, err
		}
		s.NFrames++
		m, err := s.asm.Push(f)
		if err != nil {
			return ref.Packet{}, err
		}
		if m == nil {
			continue
		}
		switch m.Op {
		case 8:
			code, reason := ref.ParseWSClose(m.Data)
			s.c.w.recx(Ev{Sess: s.c.name, Kind: "c-ws-close-frame", S: reason, N: int64(code)})
			return ref.Packet{}, fmt.Errorf("close frame %d %q", code, reason)
		case 9:
			s.conn.Write(ref.AppendWSFrame(nil, ref.WSFrame{Fin: true, Op: 10, Masked: true, Payload: m.Data}, s.mask()))
			continue
		case 10:
			continue
		}
		s.c.w.recx(Ev{Sess: s.c.name, Kind: "c-ws-msg", N: int64(len(m.Data)), S: fmt.Sprintf("op=%d frames=%d compressed=%v", m.Op, m.Frames, m.Compressed)})
		p, err := ref.DecodePacket(m.Data, m.Op == 2, s.eio)
		if err != nil {
			s.c.rec("c-undecodable-frame", err.Error(), 0)
			return ref.Packet{}, err
		}
		return p, nil
	}
}

func (s *wsClient) close() {
	if !s.closed {
		s.closed = true
		s.conn.Write(ref.AppendWSFrame(nil, ref.WSFrame{Fin: true, Op: 8, Masked: true, Payload: ref.WSClosePayload(1000, "")}, s.mask()))
		s.conn.Close()
		simrt.Settle()
	}
}

func (s *wsClient) reset() {
	s.closed = true
	s.conn.resetPeer()
	simrt.Settle()
}

var _ io.Reader = (*bufio.Reader)(nil)

// resumePolling: an upgrade that did not happen leaves the client on its polling transport - it polls again.
func (c *Client) resumePolling() {
	c.pausing, c.paused = false, false
	if !c.pollAlive && !c.closed && !c.stopped && c.transport == "polling" {
		c.spawn("poll", c.pollLoop)
	}
}
