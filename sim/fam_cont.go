package sim

import (
	"fmt"
	"sort"
	"strconv"
	"strings"
	"time"

	"github.com/anishathalye/porcupine"
	"github.com/zishang520/engine.io/v2/simrt"
	"github.com/zishang520/engine.io/v2/types"
	"github.com/zishang520/engine.io/v2/utils"
)

// ContScen: concurrent histories over types.Map / types.Slice / types.Set /
// the event emitter / the id helpers (2-8 tasks), plus single-task sequences
// for the sequential contracts (aliasing, invalid indices, nil listeners).
type ContScen struct {
	Mode string   `json:"mode"` // map | slice | set | emitter | ids | seq
	Ops  []ContOp `json:"ops"`
}

type ContOp struct {
	Task string `json:"task"`
	Op   string `json:"op"`
	K    string `json:"k,omitempty"`
	A    int    `json:"a,omitempty"`
	B    int    `json:"b,omitempty"`
	Ins  []int  `json:"ins,omitempty"`
	Cap  int    `json:"cap,omitempty"` // spare capacity of the caller's slice
}

type contFam struct {
	sc     *Scenario
	m      *types.Map[string, int]
	sl     *types.Slice[int]
	set    *types.Set[int]
	em     types.EventEmitter
	y      *utils.Yeast
	hist   []porcupine.Operation
	ids    []string
	seqV   []Violation
	emCall []emCall
	emL    map[int]types.Listener
	done   int
	ntask  int
}

type emCall struct {
	l, emit, seq int
}

func init() {
	families["cont"] = func(sc *Scenario) family { return &contFam{sc: sc} }
	generators["C20"] = []genFn{GenCont}
	familyShrinkFns = append(familyShrinkFns, func(sc *Scenario) []shrinkCand {
		if sc.Cont == nil {
			return nil
		}
		var out []shrinkCand
		for i := range sc.Cont.Ops {
			c := cloneScenario(sc)
			c.Cont.Ops = append(c.Cont.Ops[:i], c.Cont.Ops[i+1:]...)
			out = append(out, shrinkCand{c, "drop-op"})
		}
		return out
	})
}

func (f *contFam) horizon() time.Duration { return 10 * time.Second }
func (f *contFam) quiescent(w *World)     {}

type cIn struct {
	Op   string
	K    string
	A, B int
	Ins  string
}
type cOut struct {
	V   string
	OK  bool
	Err bool
}

func (f *contFam) setup(w *World) {
	cs := f.sc.Cont
	f.m = &types.Map[string, int]{}
	f.sl = types.NewSlice[int]()
	f.set = types.NewSet[int]()
	f.em = types.NewEventEmitter()
	f.y = utils.NewYeast()
	f.emL = map[int]types.Listener{}
	by := map[string][]ContOp{}
	for _, o := range cs.Ops {
		by[o.Task] = append(by[o.Task], o)
	}
	names := sortedKeys(by)
	f.ntask = len(names)
	for ti, name := range names {
		ops := by[name]
		ti := ti
		simrt.GoActor("k-"+name, func() {
			for _, o := range ops {
				switch cs.Mode {
				case "map", "slice", "set":
					f.linOp(w, ti, cs.Mode, o)
				case "emitter":
					f.emOp(w, ti, o)
				case "ids":
					f.idOp(w, o)
				case "seq":
					f.seqOp(w, o)
				}
			}
			f.done++
			if f.done == f.ntask {
				w.S.StopFlag.Store(true)
			}
		})
	}
}

func ints(xs []int) string {
	var s []string
	for _, x := range xs {
		s = append(s, strconv.Itoa(x))
	}
	return strings.Join(s, ",")
}

// linOp performs one operation and records it with invoke/return sequence numbers.
func (f *contFam) linOp(w *World, client int, mode string, o ContOp) {
	in := cIn{Op: mode + "." + o.Op, K: o.K, A: o.A, B: o.B, Ins: ints(o.Ins)}
	call := w.recx(Ev{Kind: "invoke", S: in.Op, N: int64(client), P: []string{o.K, strconv.Itoa(o.A), strconv.Itoa(o.B), in.Ins}})
	var out cOut
	switch mode {
	case "map":
		switch o.Op {
		case "Load":
			v, ok := f.m.Load(o.K)
			out = cOut{V: strconv.Itoa(v), OK: ok}
		case "Store":
			f.m.Store(o.K, o.A)
		case "LoadOrStore":
			v, ok := f.m.LoadOrStore(o.K, o.A)
			out = cOut{V: strconv.Itoa(v), OK: ok}
		case "LoadAndDelete":
			v, ok := f.m.LoadAndDelete(o.K)
			out = cOut{V: strconv.Itoa(v), OK: ok}
		case "Delete":
			f.m.Delete(o.K)
		case "Swap":
			v, ok := f.m.Swap(o.K, o.A)
			out = cOut{V: strconv.Itoa(v), OK: ok}
		case "CompareAndSwap":
			out = cOut{OK: f.m.CompareAndSwap(o.K, o.A, o.B)}
		case "CompareAndDelete":
			out = cOut{OK: f.m.CompareAndDelete(o.K, o.A)}
		case "Clear":
			f.m.Clear()
		case "Keys":
			// Keys / Len / Range are no atomic snapshots and their results are not judged; they are here because
			// they walk the map's internals (read-only part, dirty part, promotion) concurrently with the others
			_ = f.m.Keys()
		case "Len":
			_ = f.m.Len()
		case "Range":
			f.m.Range(func(string, int) bool { return true })
		}
	case "slice":
		switch o.Op {
		case "Push":
			out = cOut{V: strconv.Itoa(f.sl.Push(o.Ins...))}
		case "Unshift":
			out = cOut{V: strconv.Itoa(f.sl.Unshift(o.Ins...))}
		case "Pop":
			v, err := f.sl.Pop()
			out = cOut{V: strconv.Itoa(v), Err: err != nil}
		case "Shift":
			v, err := f.sl.Shift()
			out = cOut{V: strconv.Itoa(v), Err: err != nil}
		case "Get":
			v, err := f.sl.Get(o.A)
			out = cOut{V: strconv.Itoa(v), Err: err != nil}
		case "Set":
			out = cOut{Err: f.sl.Set(o.A, o.B) != nil}
		case "Len":
			out = cOut{V: strconv.Itoa(f.sl.Len())}
		case "All":
			out = cOut{V: ints(f.sl.All())}
		case "AllAndClear":
			out = cOut{V: ints(f.sl.AllAndClear())}
		case "Clear":
			f.sl.Clear()
		case "Splice":
			r, err := f.sl.Splice(o.A, o.B, o.Ins...)
			out = cOut{V: ints(r), Err: err != nil}
		case "RemoveEq":
			f.sl.Remove(func(x int) bool { return x == o.A })
		}
	case "set":
		switch o.Op {
		case "Add":
			out = cOut{OK: f.set.Add(o.A)}
		case "Delete":
			out = cOut{OK: f.set.Delete(o.A)}
		case "Has":
			out = cOut{OK: f.set.Has(o.A)}
		case "Len":
			out = cOut{V: strconv.Itoa(f.set.Len())}
		case "Keys":
			k := f.set.Keys()
			sort.Ints(k)
			out = cOut{V: ints(k)}
		case "Clear":
			f.set.Clear()
		case "Replace":
			// the whole content replaced in one call (UnmarshalJSON): {A, B}
			err := f.set.UnmarshalJSON([]byte(fmt.Sprintf("[%d,%d]", o.A, o.B)))
			out = cOut{Err: err != nil}
		}
	}
	simrt.Yield(-5)
	ret := w.recx(Ev{Kind: "return", S: in.Op, N: int64(client), P: []string{out.V, fmt.Sprint(out.OK), fmt.Sprint(out.Err)}})
	w.mu.Lock()
	f.hist = append(f.hist, porcupine.Operation{ClientId: client, Input: in, Call: int64(call), Output: out, Return: int64(ret)})
	w.mu.Unlock()
}

// ---- sequential models for porcupine ----

func parseInts(s string) []int {
	if s == "" {
		return nil
	}
	var out []int
	for _, x := range strings.Split(s, ",") {
		n, _ := strconv.Atoi(x)
		out = append(out, n)
	}
	return out
}

func mapModel() porcupine.Model {
	// state: "k=v;k=v" sorted
	enc := func(m map[string]int) string {
		var ks []string
		for k := range m {
			ks = append(ks, k)
		}
		sort.Strings(ks)
		var s []string
		for _, k := range ks {
			s = append(s, k+"="+strconv.Itoa(m[k]))
		}
		return strings.Join(s, ";")
	}
	dec := func(s string) map[string]int {
		m := map[string]int{}
		if s == "" {
			return m
		}
		for _, kv := range strings.Split(s, ";") {
			i := strings.Index(kv, "=")
			n, _ := strconv.Atoi(kv[i+1:])
			m[kv[:i]] = n
		}
		return m
	}
	return porcupine.Model{
		Init: func() interface{} { return "" },
		Step: func(state, input, output interface{}) (bool, interface{}) {
			m := dec(state.(string))
			in, out := input.(cIn), output.(cOut)
			v, ok := m[in.K]
			switch strings.TrimPrefix(in.Op, "map.") {
			case "Load":
				return out.OK == ok && (!ok || out.V == strconv.Itoa(v)), state
			case "Store":
				m[in.K] = in.A
			case "LoadOrStore":
				if ok {
					return out.OK && out.V == strconv.Itoa(v), state
				}
				m[in.K] = in.A
				return !out.OK && out.V == strconv.Itoa(in.A), enc(m)
			case "LoadAndDelete":
				if !(out.OK == ok && (!ok || out.V == strconv.Itoa(v))) {
					return false, state
				}
				delete(m, in.K)
			case "Delete":
				delete(m, in.K)
			case "Swap":
				if !(out.OK == ok && (!ok || out.V == strconv.Itoa(v))) {
					return false, state
				}
				m[in.K] = in.A
			case "CompareAndSwap":
				if ok && v == in.A {
					m[in.K] = in.B
					return out.OK, enc(m)
				}
				return !out.OK, state
			case "CompareAndDelete":
				if ok && v == in.A {
					delete(m, in.K)
					return out.OK, enc(m)
				}
				return !out.OK, state
			case "Clear":
				return true, ""
			}
			return true, enc(m)
		},
		DescribeOperation: func(input, output interface{}) string { return fmt.Sprintf("%+v -> %+v", input, output) },
	}
}

func sliceModel() porcupine.Model {
	return porcupine.Model{
		Init: func() interface{} { return "" },
		Step: func(state, input, output interface{}) (bool, interface{}) {
			s := parseInts(state.(string))
			in, out := input.(cIn), output.(cOut)
			ins := parseInts(in.Ins)
			switch strings.TrimPrefix(in.Op, "slice.") {
			case "Push":
				s = append(s, ins...)
				return out.V == strconv.Itoa(len(s)), ints(s)
			case "Unshift":
				s = append(append([]int(nil), ins...), s...)
				return out.V == strconv.Itoa(len(s)), ints(s)
			case "Pop":
				if len(s) == 0 {
					return out.Err, state
				}
				return !out.Err && out.V == strconv.Itoa(s[len(s)-1]), ints(s[:len(s)-1])
			case "Shift":
				if len(s) == 0 {
					return out.Err, state
				}
				return !out.Err && out.V == strconv.Itoa(s[0]), ints(s[1:])
			case "Get":
				if in.A < 0 || in.A >= len(s) {
					return out.Err, state
				}
				return !out.Err && out.V == strconv.Itoa(s[in.A]), state
			case "Set":
				if in.A < 0 || in.A >= len(s) {
					return out.Err, state
				}
				s[in.A] = in.B
				return !out.Err, ints(s)
			case "Len":
				return out.V == strconv.Itoa(len(s)), state
			case "All":
				return out.V == ints(s), state
			case "AllAndClear":
				return out.V == ints(s), ""
			case "Clear":
				return true, ""
			case "Splice":
				if in.A < 0 || in.A > len(s) || in.B < 0 {
					return out.Err, state
				}
				d := in.B
				if d > len(s)-in.A {
					d = len(s) - in.A
				}
				removed := append([]int(nil), s[in.A:in.A+d]...)
				ns := append(append(append([]int(nil), s[:in.A]...), ins...), s[in.A+d:]...)
				return !out.Err && out.V == ints(removed), ints(ns)
			case "RemoveEq":
				for i, x := range s {
					if x == in.A {
						s = append(s[:i:i], s[i+1:]...)
						break
					}
				}
				return true, ints(s)
			}
			return true, state
		},
		DescribeOperation: func(input, output interface{}) string { return fmt.Sprintf("%+v -> %+v", input, output) },
	}
}

func setModel() porcupine.Model {
	return porcupine.Model{
		Init: func() interface{} { return "" },
		Step: func(state, input, output interface{}) (bool, interface{}) {
			s := parseInts(state.(string))
			has := func(x int) int {
				for i, y := range s {
					if y == x {
						return i
					}
				}
				return -1
			}
			in, out := input.(cIn), output.(cOut)
			switch strings.TrimPrefix(in.Op, "set.") {
			case "Add":
				if has(in.A) >= 0 {
					return true, state // return value of Add is not specified by the property (implementation reports true either way)
				}
				s = append(s, in.A)
				sort.Ints(s)
				return true, ints(s)
			case "Delete":
				if i := has(in.A); i >= 0 {
					s = append(s[:i:i], s[i+1:]...)
				}
				return true, ints(s)
			case "Has":
				return out.OK == (has(in.A) >= 0), state
			case "Len":
				return out.V == strconv.Itoa(len(s)), state
			case "Keys":
				return out.V == ints(s), state
			case "Clear":
				return true, ""
			case "Replace":
				n := []int{in.A}
				if in.B != in.A {
					n = append(n, in.B)
				}
				sort.Ints(n)
				return !out.Err, ints(n)
			}
			return true, state
		},
		DescribeOperation: func(input, output interface{}) string { return fmt.Sprintf("%+v -> %+v", input, output) },
	}
}

// ---- emitter ----

// eight distinct function literals (distinct code pointers): the emitter
// identifies listeners by reflect pointer
func (f *contFam) listener(w *World, i int) types.Listener {
	rec := func(a ...any) {
		emit := -1
		if len(a) > 0 {
			emit, _ = a[0].(int)
		}
		seq := w.recx(Ev{Kind: "listener", N: int64(i), S: strconv.Itoa(emit)})
		w.mu.Lock()
		f.emCall = append(f.emCall, emCall{i, emit, seq})
		w.mu.Unlock()
	}
	switch i {
	case 0:
		return func(a ...any) { rec(a...) }
	case 1:
		return func(a ...any) { rec(a...); _ = 1 }
	case 2:
		return func(a ...any) { rec(a...); _ = 2 }
	case 3:
		return func(a ...any) { rec(a...); _ = 3 }
	case 4:
		return func(a ...any) { rec(a...); _ = 4 }
	case 5:
		return func(a ...any) { rec(a...); _ = 5 }
	}
	return func(a ...any) { rec(a...); _ = 6 }
}

func (f *contFam) emOp(w *World, client int, o ContOp) {
	if o.Op == "init" {
		return
	}
	l := f.emL[o.A]
	if l == nil {
		l = f.listener(w, o.A)
		f.emL[o.A] = l
	}
	call := w.recx(Ev{Kind: "em-invoke", S: o.Op, N: int64(o.A), P: []string{strconv.Itoa(client), strconv.Itoa(o.B)}})
	res := ""
	switch o.Op {
	case "On":
		f.em.On("e", l)
	case "Once":
		f.em.Once("e", l)
	case "Remove":
		res = fmt.Sprint(f.em.RemoveListener("e", l))
	case "RemoveAll":
		res = fmt.Sprint(f.em.RemoveAllListeners("e"))
	case "Emit":
		f.em.Emit("e", o.B) // o.B = unique emit id
	case "Count":
		res = strconv.Itoa(f.em.ListenerCount("e"))
	}
	simrt.Yield(-5)
	w.recx(Ev{Kind: "em-return", S: o.Op, N: int64(o.A), P: []string{strconv.Itoa(client), strconv.Itoa(o.B), res, strconv.Itoa(call)}})
}

func (f *contFam) idOp(w *World, o ContOp) {
	var id string
	if o.Op == "Yeast" {
		id = f.y.Yeast()
	} else {
		id, _ = utils.Base64Id().GenerateId()
	}
	simrt.Yield(-5)
	w.mu.Lock()
	f.ids = append(f.ids, o.Op+":"+id)
	w.mu.Unlock()
	w.rec("", "id", o.Op+":"+id, 0)
}

// seqOp: single-task contract checks against a plain Go reference.
func (f *contFam) seqOp(w *World, o ContOp) {
	v := func(rule, ctx, msg string) {
		f.seqV = append(f.seqV, Violation{Prop: "C20", Rule: rule, Sig: joinSig(rule, ctx), Msg: msg})
	}
	defer func() {
		if r := recover(); r != nil {
			if s := fmt.Sprint(r); strings.HasPrefix(s, "simrt: abort") {
				panic(r)
			}
			v("error-not-panic", o.Op, fmt.Sprintf("%s(%d,%d,%v) panicked: %v", o.Op, o.A, o.B, o.Ins, r))
		}
	}()
	before := f.sl.All()
	switch o.Op {
	case "Push", "Unshift", "Splice":
		// a caller-owned slice with spare capacity
		buf := make([]int, len(o.Ins), len(o.Ins)+o.Cap)
		copy(buf, o.Ins)
		full := buf[:cap(buf)]
		for i := len(o.Ins); i < len(full); i++ {
			full[i] = -777
		}
		var want []int
		switch o.Op {
		case "Push":
			f.sl.Push(buf...)
			want = append(append([]int(nil), before...), o.Ins...)
		case "Unshift":
			f.sl.Unshift(buf...)
			want = append(append([]int(nil), o.Ins...), before...)
		case "Splice":
			_, err := f.sl.Splice(o.A, o.B, buf...)
			if o.A < 0 || o.A > len(before) || o.B < 0 {
				if err == nil {
					v("invalid-index-rejected", "Splice", fmt.Sprintf("Splice(%d,%d) on %d elements returned no error", o.A, o.B, len(before)))
				}
				want = before
			} else {
				d := min(o.B, len(before)-o.A)
				want = append(append(append([]int(nil), before[:o.A]...), o.Ins...), before[o.A+d:]...)
			}
		}
		if got := f.sl.All(); ints(got) != ints(want) {
			v("sequence-semantics", o.Op, fmt.Sprintf("%s(%v) on [%s]: got [%s], want [%s]", o.Op, o.Ins, ints(before), ints(got), ints(want)))
		}
		// the caller's spare capacity must be untouched, and writing to the caller's slice must not show through
		for i := len(o.Ins); i < len(full); i++ {
			if full[i] != -777 {
				v("no-shared-storage", o.Op+"/caller-array-overwritten", fmt.Sprintf("%s wrote into the spare capacity of the slice passed in by the caller", o.Op))
				break
			}
		}
		snap := f.sl.All()
		for i := range full {
			full[i] = 999000 + i
		}
		if got := f.sl.All(); ints(got) != ints(snap) {
			v("no-shared-storage", o.Op+"/container-aliases-caller", fmt.Sprintf("after %s the container changed when the caller wrote to its own slice: [%s] -> [%s]", o.Op, ints(snap), ints(got)))
		}
		// later appends by the container must not write into the caller's array either
		f.sl.Push(4242)
		for i := len(o.Ins); i < len(full); i++ {
			if full[i] == 4242 {
				v("no-shared-storage", o.Op+"/container-aliases-caller", fmt.Sprintf("after %s a later Push wrote into the caller's array", o.Op))
				break
			}
		}
		f.sl.Pop()
	case "Get":
		_, err := f.sl.Get(o.A)
		if (o.A < 0 || o.A >= len(before)) != (err != nil) {
			v("invalid-index-rejected", "Get", fmt.Sprintf("Get(%d) on %d elements: err=%v", o.A, len(before), err))
		}
	case "Set":
		err := f.sl.Set(o.A, o.B)
		if (o.A < 0 || o.A >= len(before)) != (err != nil) {
			v("invalid-index-rejected", "Set", fmt.Sprintf("Set(%d) on %d elements: err=%v", o.A, len(before), err))
		}
	case "Slice":
		_, err := f.sl.Slice(o.A, o.B)
		if (o.A < 0 || o.B > len(before) || o.A > o.B) != (err != nil) {
			v("invalid-index-rejected", "Slice", fmt.Sprintf("Slice(%d,%d) on %d elements: err=%v", o.A, o.B, len(before), err))
		}
	case "RangeAndSplice":
		_, err := f.sl.RangeAndSplice(func(x, i int) (bool, int, int, []int) { return i == 0, o.A, o.B, o.Ins })
		if len(before) > 0 && (o.A < 0 || o.A > len(before) || o.B < 0) && err == nil {
			v("invalid-index-rejected", "RangeAndSplice", fmt.Sprintf("RangeAndSplice -> splice(%d,%d) on %d elements returned no error", o.A, o.B, len(before)))
		}
	case "EmNil":
		em := types.NewEventEmitter()
		em.On("x", nil)
		em.Once("x", nil)
		l := func(...any) {}
		em.On("x", l)
		em.Emit("x")
		em.RemoveListener("x", l)
		em.RemoveListener("x", nil)
	case "EmRemoveOne":
		em := types.NewEventEmitter()
		n := 0
		l := func(...any) { n++ }
		other := func(...any) { n += 100 }
		for i := 0; i < o.A; i++ {
			em.On("x", l)
		}
		em.On("x", other)
		em.RemoveListener("x", l)
		em.Emit("x")
		if want := (o.A-1)*1 + 100; o.A >= 1 && n != want {
			v("remove-exactly-one", "", fmt.Sprintf("%d registrations of one function, one RemoveListener: emit ran it %d times (counter %d, want %d)", o.A, n%100, n, want))
		}
	case "EmRemoveDuringEmit":
		// listeners may remove listeners while an emit is in progress; every listener registered when the
		// emit started is still called exactly once in that emit (o.A selects On or Once for the victim)
		em := types.NewEventEmitter()
		var order []int
		var victim types.Listener = func(...any) { order = append(order, 2) }
		em.On("x", func(...any) { order = append(order, 1); em.RemoveListener("x", victim) })
		if o.A%2 == 0 {
			em.Once("x", victim)
		} else {
			em.On("x", victim)
		}
		em.On("x", func(...any) { order = append(order, 3) })
		em.Emit("x")
		if ints(order) != "1,2,3" {
			kind := "on"
			if o.A%2 == 0 {
				kind = "once"
			}
			v("emit-snapshot", kind+"-listener-removed-during-emit", fmt.Sprintf("emit called %v, want [1 2 3]: a listener registered when the emit started was removed by an earlier listener of the same emit and not called", order))
		}
		order = nil
		em.Emit("x")
		if ints(order) != "1,3" {
			v("emit-snapshot", "second", fmt.Sprintf("second emit called %v, want [1 3] (the removed listener is gone)", order))
		}
	case "EmOrder":
		em := types.NewEventEmitter()
		var order []int
		em.On("x", func(...any) { order = append(order, 1) })
		em.Once("x", func(...any) { order = append(order, 2) })
		em.On("x", func(...any) { order = append(order, 3); em.On("x", func(...any) { order = append(order, 4) }) })
		em.Emit("x")
		if ints(order) != "1,2,3" {
			v("emit-order", "", fmt.Sprintf("first emit called %v, want [1 2 3]", order))
		}
		order = nil
		em.Emit("x")
		if ints(order) != "1,3,4" {
			v("emit-order", "second", fmt.Sprintf("second emit called %v, want [1 3 4] (Once gone, listener added during the first emit present)", order))
		}
	}
}

func (f *contFam) finish(w *World, res *Result) {
	failureViolations(res, "C20", "C20")
	res.Viol = append(res.Viol, f.seqV...)
	l := &vlist{prop: "C20"}
	cs := f.sc.Cont
	switch cs.Mode {
	case "map", "slice", "set":
		model := map[string]func() porcupine.Model{"map": mapModel, "slice": sliceModel, "set": setModel}[cs.Mode]()
		if len(f.hist) > 0 {
			r := porcupine.CheckOperationsTimeout(model, f.hist, 20*time.Second)
			switch r {
			case porcupine.Illegal:
				var d []string
				for _, op := range f.hist {
					d = append(d, fmt.Sprintf("c%d [%d,%d] %v -> %v", op.ClientId, op.Call, op.Return, op.Input, op.Output))
				}
				l.add("linearizable", cs.Mode, fmt.Sprintf("history over types.%s has no linearization:\n%s", strings.Title(cs.Mode), strings.Join(d, "\n")))
			case porcupine.Unknown:
				res.Incon++
			}
		}
	case "ids":
		seen := map[string]bool{}
		for _, id := range f.ids {
			if seen[id] {
				kind := id[:strings.Index(id, ":")]
				l.add("ids-never-repeat", kind, fmt.Sprintf("%s returned the same value twice: %s (%d calls by %d tasks within one virtual millisecond)", kind, id, len(f.ids), f.ntask))
				break
			}
			seen[id] = true
		}
	case "emitter":
		f.emitterOracle(w, l)
	}
	res.Viol = append(res.Viol, l.out...)
}

// emitterOracle: interval-order rules over the recorded emitter history.
func (f *contFam) emitterOracle(w *World, l *vlist) {
	type iv struct {
		op        string
		li, id    int
		call, ret int
		res       string
	}
	var ops []iv
	for _, e := range w.Evs {
		if e.Kind == "em-return" {
			id, _ := strconv.Atoi(e.P[1])
			call, _ := strconv.Atoi(e.P[3])
			ops = append(ops, iv{op: e.S, li: int(e.N), id: id, call: call, ret: e.Seq, res: e.P[2]})
		}
	}
	calls := map[[2]int]int{} // (listener, emit) -> count
	perL := map[int]int{}
	for _, c := range f.emCall {
		calls[[2]int{c.l, c.emit}]++
		perL[c.l]++
	}
	for _, em := range ops {
		if em.op != "Emit" {
			continue
		}
		for li := 0; li < 7; li++ {
			sureOn, possible := 0, 0
			for _, r := range ops {
				if r.li != li || (r.op != "On" && r.op != "Once") {
					continue
				}
				if r.call < em.ret {
					possible++
				}
				if r.op == "On" && r.ret < em.call {
					sureOn++ // registered before the emit started
				}
			}
			removable := false
			for _, r := range ops {
				if (r.op == "Remove" && r.li == li && r.call < em.ret) || (r.op == "RemoveAll" && r.call < em.ret) {
					removable = true
				}
			}
			n := calls[[2]int{li, em.id}]
			if n > possible {
				l.add("listener-once-per-emit", "", fmt.Sprintf("listener %d ran %d times for emit %d but at most %d registrations can have existed", li, n, em.id, possible))
			}
			if !removable && n < sureOn {
				// discriminator for the recorded finding: the same function registered with On and with Once (the
				// Once entry, when it fires, removes "the listener" by function identity and takes the On entry)
				c := ""
				for _, r := range ops {
					if r.li == li && r.op == "Once" && r.call < em.ret {
						c = "once-and-on-same-function"
					}
				}
				l.add("registered-listener-called", c, fmt.Sprintf("listener %d: %d On-registrations completed before emit %d started and none was removed, but it ran %d times", li, sureOn, em.id, n))
			}
		}
	}
	// a Once registration runs at most once overall
	for li := 0; li < 7; li++ {
		nOnce, nOn := 0, 0
		for _, r := range ops {
			if r.li == li && r.op == "Once" {
				nOnce++
			}
			if r.li == li && r.op == "On" {
				nOn++
			}
		}
		if nOn == 0 && perL[li] > nOnce {
			l.add("once-at-most-once", "", fmt.Sprintf("listener %d was registered with Once %d times but ran %d times", li, nOnce, perL[li]))
		}
	}
}

// GenCont draws a container scenario.
func GenCont(prop string, seed uint64, thorough bool) *Scenario {
	g := newG(seed)
	sc := &Scenario{Family: "cont", Prop: prop, Seed: g.Uint64(), FaultFree: true, HorizonMs: 1000}
	cs := &ContScen{Mode: g.picks("map", "slice", "set", "emitter", "ids", "seq", "map", "slice")}
	ntask := g.rng(2, 4)
	nops := g.rng(4, 14)
	if thorough {
		ntask, nops = g.rng(2, 8), g.rng(6, 28)
	}
	val := 0
	keys := []string{"a", "b", "c"}
	task := func() string { return fmt.Sprintf("t%d", g.IntN(ntask)) }
	switch cs.Mode {
	case "map":
		for i := 0; i < nops; i++ {
			val++
			o := ContOp{Task: task(), K: keys[g.IntN(3)], A: val, Op: g.picks("Load", "Store", "LoadOrStore", "LoadAndDelete", "Delete", "Swap", "CompareAndSwap", "CompareAndDelete", "Load", "Store", "Clear")}
			if o.Op == "CompareAndSwap" || o.Op == "CompareAndDelete" {
				o.A, o.B = g.rng(1, max(val-1, 1)), val
			}
			if o.Op == "Clear" && !g.p(0.3) {
				o.Op = "Load"
			}
			if g.p(0.2) {
				// walkers and misses: they promote the dirty part while the others run
				o.Op = g.picks("Keys", "Len", "Range", "Load", "Load")
				if o.Op == "Load" {
					o.K = "zz" // never stored: a miss
				}
			}
			cs.Ops = append(cs.Ops, o)
		}
	case "slice":
		for i := 0; i < nops; i++ {
			o := ContOp{Task: task(), Op: g.picks("Push", "Unshift", "Pop", "Shift", "Get", "Set", "Len", "All", "AllAndClear", "Splice", "RemoveEq", "Push", "Clear")}
			switch o.Op {
			case "Push", "Unshift":
				n := g.rng(1, 2)
				for k := 0; k < n; k++ {
					val++
					o.Ins = append(o.Ins, val)
				}
			case "Get":
				o.A = g.rng(-1, 3)
			case "Set":
				val++
				o.A, o.B = g.rng(-1, 3), val
			case "Splice":
				o.A, o.B = g.rng(0, 3), g.rng(0, 2)
				if g.p(0.5) {
					val++
					o.Ins = []int{val}
				}
			case "RemoveEq":
				o.A = g.rng(1, max(val, 1))
			case "Clear":
				if !g.p(0.3) {
					o.Op = "Len"
				}
			}
			cs.Ops = append(cs.Ops, o)
		}
	case "set":
		for i := 0; i < nops; i++ {
			cs.Ops = append(cs.Ops, ContOp{Task: task(), Op: g.picks("Add", "Delete", "Has", "Len", "Keys", "Add", "Has", "Replace"), A: g.rng(1, 3), B: g.rng(1, 3)})
		}
	case "emitter":
		cs.Ops = append(cs.Ops, ContOp{Task: "t0", Op: "init"})
		for i := 0; i < nops; i++ {
			val++
			cs.Ops = append(cs.Ops, ContOp{Task: task(), Op: g.picks("On", "Once", "Emit", "Emit", "Remove", "Emit", "On", "Count"), A: g.IntN(4), B: val})
		}
		if g.p(0.15) {
			cs.Ops = append(cs.Ops, ContOp{Task: task(), Op: "RemoveAll"})
		}
	case "ids":
		kind := g.picks("Yeast", "GenerateId", "Yeast")
		for t := 0; t < ntask; t++ {
			n := g.rng(1, 4)
			for i := 0; i < n; i++ {
				cs.Ops = append(cs.Ops, ContOp{Task: fmt.Sprintf("t%d", t), Op: kind})
			}
		}
	case "seq":
		n := g.rng(3, 12)
		for i := 0; i < n; i++ {
			o := ContOp{Task: "t0", Op: g.picks("Push", "Unshift", "Splice", "Get", "Set", "Slice", "RangeAndSplice", "EmNil", "EmRemoveOne", "EmOrder", "EmRemoveDuringEmit", "Unshift", "Splice")}
			k := g.rng(0, 3)
			for j := 0; j < k; j++ {
				val++
				o.Ins = append(o.Ins, val)
			}
			o.Cap = g.pick(0, 0, 1, 4, 16)
			o.A, o.B = g.rng(-1, 4), g.rng(-1, 3)
			if o.Op == "EmRemoveOne" {
				o.A = g.rng(1, 3)
			}
			cs.Ops = append(cs.Ops, o)
		}
	}
	sc.Cont = cs
	sc.Policy, sc.HotFuncs = genPolicy(g, nil, 400)
	if sc.Policy.Kind == "fifo" {
		sc.Policy.Kind, sc.Policy.P = "rw", 0.2 // these histories are tiny: always pre-empt
	}
	if cs.Mode == "ids" && g.p(0.6) {
		// stalled tasks: a task pre-empted inside Yeast / GenerateId loses a few virtual milliseconds, so the
		// clock moves between two of its statements (ids must stay unique across a millisecond boundary too)
		sc.Policy.StallP, sc.Policy.StallMs = 0.5, g.pick(1, 2, 5)
		sc.FaultFree = false
	}
	sc.MaxSteps = 20000
	return sc
}
