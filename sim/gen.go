package sim

import (
	"fmt"
	"math/rand/v2"

	"github.com/zishang520/engine.io/v2/simrt"
)

// G wraps the run PRNG (every draw of scenario generation goes through it).
type G struct{ *rand.Rand }

func newG(seed uint64) *G { return &G{rand.New(rand.NewPCG(seed, 0xda3e39cb94b95bdb))} }

func (g *G) p(prob float64) bool       { return g.Float64() < prob }
func (g *G) pick(xs ...int) int        { return xs[g.IntN(len(xs))] }
func (g *G) picks(xs ...string) string { return xs[g.IntN(len(xs))] }
func (g *G) rng(lo, hi int) int {
	if hi <= lo {
		return lo
	}
	return lo + g.IntN(hi-lo+1)
}

// splitmix64 derives per-run seeds from VERIF_SEED and the run index.
func splitmix64(x uint64) uint64 {
	x += 0x9e3779b97f4a7c15
	z := x
	z = (z ^ (z >> 30)) * 0xbf58476d1ce4e5b9
	z = (z ^ (z >> 27)) * 0x94d049bb133111eb
	return z ^ (z >> 31)
}

func runSeed(verifSeed int64, idx int64) uint64 {
	return splitmix64(splitmix64(uint64(verifSeed)) ^ uint64(idx)*0x2545f4914f6cdd1d)
}

// profile biases the session generator towards a property.
type profile struct {
	faultFree    float64
	maxClients   int
	pPolling     float64 // start on polling (else ws / wt)
	pWT          float64 // among stream transports / upgrades
	pEIO3        float64
	pB64         float64
	pJSONP       float64
	pUpgrade     float64
	pSecondCand  float64
	pCandScript  float64
	senders      int
	sendsMax     int
	pBigPayload  float64
	pBinary      float64
	pPreEncoded  float64
	pBroadcast   float64
	pNoCompress  float64
	pCB          float64
	clientSends  int
	pAppClose    float64
	pServerClose float64
	pClientFault float64
	pClientClose float64
	pSilence     float64
	pLatePong    float64
	pReent       float64
	pCompression float64
	pPMD         float64
	pCookie      float64
	pCors        float64
	pInitial     float64
	pPrimer      float64
	smallHB      float64 // probability of sub-second heartbeat settings
	hot          []string
	pHttpServer  float64
	fragP        float64
	horizonLo    int
	horizonHi    int
}

func baseProfile() profile {
	return profile{faultFree: 0.5, maxClients: 2, pPolling: 0.7, pWT: 0.3, pEIO3: 0.2, pB64: 0.2, pJSONP: 0.1,
		pUpgrade: 0.5, pCandScript: 0.12, pSecondCand: 0.3, senders: 2, sendsMax: 8, pBigPayload: 0.08, pBinary: 0.3, pPreEncoded: 0.1, pBroadcast: 0.04, pNoCompress: 0.15, pCB: 0.3,
		clientSends: 4, pAppClose: 0.15, pServerClose: 0.05, pClientFault: 0.3, pClientClose: 0.1, pSilence: 0.1, pLatePong: 0.1,
		pReent: 0, pCompression: 0.5, pPMD: 0.2, pCookie: 0.2, pCors: 0.15, pInitial: 0.15, smallHB: 0.6, pHttpServer: 0.3, fragP: 0.3,
		horizonLo: 800, horizonHi: 4000}
}

func profileFor(prop string) profile {
	p := baseProfile()
	switch prop {
	case "C01":
		p.faultFree, p.senders, p.sendsMax, p.pUpgrade = 0.7, 3, 12, 0.6
		p.pBroadcast, p.maxClients = 0.12, 3
		p.pAppClose, p.pServerClose = 0.05, 0.02
		p.hot = []string{"socket.sendPacket", "socket.flush", "polling.Send", "polling.send", "polling.onPollRequest", "websocket.send", "websocket.Send", "webTransport.send", "socket.MaybeUpgrade", "polling.write", "polling.DoWrite"}
	case "C02":
		p.faultFree, p.clientSends, p.pUpgrade = 0.6, 10, 0.5
		p.hot = []string{"polling.onDataRequest", "polling.OnData", "socket.onPacket", "websocket.message", "transport.OnData"}
	case "C03":
		p.faultFree, p.pAppClose, p.pServerClose, p.pClientFault, p.pClientClose, p.pSilence = 0.25, 0.5, 0.15, 0.6, 0.3, 0.3
		p.hot = []string{"socket.OnClose", "socket.Close", "socket.closeTransport", "transport.Close", "transport.OnClose", "polling.OnClose", "polling.DoClose", "websocket.DoClose", "baseServer.Handshake", "socket.onPacket", "socket.onError", "socket.clearTransport", "WebSocketConn.Close"}
	case "C04":
		p.faultFree, p.maxClients, p.pAppClose, p.pServerClose, p.pClientFault, p.pClientClose = 0.2, 4, 0.4, 0.2, 0.5, 0.3
		p.hot = []string{"baseServer.Handshake", "socket.OnClose", "socket.onOpen", "socket.Construct", "NewSocket"}
	case "C06":
		p.faultFree, p.maxClients, p.pInitial, p.pCookie, p.pPrimer = 0.7, 4, 0.5, 0.4, 0.3
		p.pClientFault = 0.6 // (handshakes the client gives up on)
		p.hot = []string{"baseServer.Handshake", "socket.onOpen", "socket.Construct", "NewSocket", "polling.onPollRequest"}
	case "C07":
		p.faultFree, p.smallHB, p.pLatePong, p.pSilence, p.pUpgrade = 0.4, 1, 0.5, 0.3, 0.15
		p.pAppClose, p.pServerClose, p.pClientFault, p.pClientClose = 0, 0, 0.1, 0
		p.hot = []string{"socket.schedulePing", "socket.resetPingTimeout", "socket.onPacket", "Timer.Refresh", "Timer.Stop", "SetTimeout"}
	case "C08":
		p.faultFree, p.pUpgrade, p.pCandScript, p.pSecondCand = 0.4, 0.9, 0.5, 0.3
		p.hot = []string{"socket.MaybeUpgrade", "server.onWebSocket", "polling.onPollRequest", "socket.flush", "polling.Send", "polling.send", "polling.write", "websocket.Construct", "socket.setTransport", "socket.clearTransport"}
	case "C11":
		p.faultFree, p.pPolling, p.pUpgrade, p.pClientFault, p.maxClients = 0.3, 1, 0.2, 0.8, 3
		p.hot = []string{"polling.onPollRequest", "polling.onDataRequest", "polling.send", "polling.write", "polling.DoWrite", "polling.DoClose", "HttpContext.Write", "HttpContext.Flush", "server.HandleRequest"}
	case "C12":
		p.faultFree, p.pAppClose, p.pServerClose, p.pUpgrade = 0.2, 0.9, 0.3, 0.4
		p.pReent, p.pCB = 0.2, 0.5 // (closes issued from inside listeners and send callbacks)
		p.hot = []string{"socket.Close", "socket.closeTransport", "polling.DoClose", "polling.send", "websocket.DoClose", "websocket.send", "socket.flush", "socket.OnClose", "baseServer.Close"}
	case "C16":
		p.faultFree, p.pPolling, p.pUpgrade, p.pCompression, p.pJSONP, p.pB64, p.pEIO3 = 0.8, 1, 0.1, 0.9, 0.3, 0.3, 0.4
		p.pBigPayload = 0.3
	case "C17":
		p.faultFree, p.pCookie, p.pCors, p.maxClients = 0.8, 0.7, 0.7, 3
	case "C18":
		p.faultFree, p.pCB, p.pReent, p.senders, p.sendsMax = 0.5, 0.7, 0.5, 3, 10
		p.hot = []string{"socket.flush", "socket.onDrain", "socket.sendPacket", "polling.send", "polling.write", "websocket.send", "socket.MaybeUpgrade", "socket.OnClose"}
	case "C05":
		p.faultFree, p.pAppClose, p.pServerClose, p.pUpgrade, p.maxClients = 0.2, 0.6, 0.1, 0.4, 3
	case "C09":
		p.faultFree = 0
		p.pCandScript = 0.35
	}
	return p
}

// genPolicy draws a scheduling policy (swarm style).
func genPolicy(g *G, hot []string, yest int) (simrt.PolicySpec, []string) {
	ps := simrt.PolicySpec{Seed: g.Uint64(), YEst: yest}
	x := g.Float64()
	switch {
	case x < 0.25:
		ps.Kind, ps.K = "fifo", g.pick(0, 0, 1, 2, 3, 6)
	case x < 0.65:
		ps.Kind, ps.P = "rw", []float64{0.002, 0.02, 0.2}[g.IntN(3)]
	case x < 0.80:
		ps.Kind, ps.K = "pct", g.rng(1, 5)
	default:
		if len(hot) == 0 {
			ps.Kind, ps.P = "rw", 0.05
		} else {
			ps.Kind, ps.P, ps.Q = "site", []float64{0, 0.002, 0.02}[g.IntN(3)], []float64{0.05, 0.2, 0.5}[g.IntN(3)]
			return ps, hot
		}
	}
	return ps, nil
}

func genOpts(g *G, p *profile) OptSpec {
	o := OptSpec{AllowUpgrades: !g.p(0.1), CompThreshold: -1}
	if g.p(p.smallHB) {
		o.PingIntervalMs = g.pick(50, 100, 200, 300, 500, 1000)
		o.PingTimeoutMs = g.pick(40, 100, 200, 400, 1000)
	} else if g.p(0.5) {
		o.PingIntervalMs = g.pick(2000, 5000, 25000, 30000)
		o.PingTimeoutMs = g.pick(1000, 5000, 20000)
	}
	if o.PingIntervalMs > 0 && g.p(0.2) {
		// only one of the two heartbeat settings is configured, the other keeps its default
		if g.p(0.5) {
			o.PingTimeoutMs = 0
		} else {
			o.PingIntervalMs = 0
		}
	}
	if g.p(0.5) {
		o.UpgradeTimeoutMs = g.pick(100, 300, 1000, 10000)
	}
	if g.p(0.3) {
		o.MaxBuf = int64(g.pick(100000, 1000000, 300000))
	}
	o.Transports = []string{"polling", "websocket"}
	if g.p(p.pWT) {
		o.Transports = []string{"polling", "websocket", "webtransport"}
		if g.p(0.2) {
			o.Transports = []string{"polling", "webtransport"}
		}
	} else if g.p(0.1) {
		o.Transports = []string{"polling"}
	}
	o.AllowEIO3 = g.p(p.pEIO3 + 0.2)
	if g.p(p.pCompression) {
		o.CompThreshold = g.pick(0, 1, 10, 100, 1024)
	}
	if g.p(p.pPMD) {
		o.PMD, o.PMDThreshold = true, g.pick(0, 10, 1024)
	}
	if g.p(p.pInitial) {
		o.InitialPacket = "init:" + fmt.Sprint(g.IntN(1000))
	}
	if g.p(p.pPrimer) {
		o.Primer = [][]string{{"polling"}, {"polling", "websocket"}, {"polling", "webtransport"}, {"websocket"}}[g.IntN(4)]
	}
	if g.p(p.pCookie) {
		o.Cookie = &CookieSpec{Name: g.picks("", "io", "sid"), Path: g.picks("", "/", "/x"), MaxAge: g.pick(0, 0, 3600), Secure: g.p(0.2), SameSite: g.pick(0, 2, 3)}
	}
	if g.p(p.pCors) {
		o.Cors = genCors(g)
	}
	if o.Cookie != nil && g.p(0.3) {
		o.AppCookie = true
	}
	return o
}

func genCors(g *G) *CorsSpec {
	c := &CorsSpec{Credentials: g.p(0.4)}
	c.OriginKind = g.picks("star", "string", "list", "regexp", "true", "false", "nil")
	switch c.OriginKind {
	case "string":
		c.Origin = g.picks("http://a.test", "http://b.test")
	case "list":
		c.Origins = []string{"http://a.test", "http://c.test"}
	case "regexp":
		c.Origin = g.picks(`^http://a\.`, `\.test$`)
	}
	if g.p(0.3) {
		c.MethodsStr = "GET,POST"
	} else if g.p(0.3) {
		c.Methods = []string{"GET", "POST", "OPTIONS"}
	}
	if g.p(0.3) {
		c.HeadersStr = "X-A,X-B"
	} else if g.p(0.3) {
		c.Headers = []string{"X-A"}
	}
	if g.p(0.2) {
		c.Exposed = "X-E"
	}
	if g.p(0.2) {
		c.MaxAge = "600"
	}
	c.Continue = g.p(0.2)
	if g.p(0.3) {
		c.Status = g.pick(200, 204)
	}
	return c
}

var sizeClasses = []int{0, 1, 5, 20, 100, 125, 126, 127, 1000, 1024, 4096, 5000}
var bigSizes = []int{65535, 65536, 70000, 100000}

func (g *G) size(p *profile) int {
	if g.p(p.pBigPayload) {
		if g.p(0.3) {
			return bigSizes[g.IntN(len(bigSizes))]
		}
		return g.pick(4000, 4096, 4097, 8192, 8200, 10000, 20000)
	}
	return sizeClasses[g.IntN(8)]
}

// GenSession draws a whole-session scenario biased for prop.
func GenSession(prop string, seed uint64, thorough bool) *Scenario {
	g := newG(seed)
	p := profileFor(prop)
	if thorough {
		p.maxClients += 2
		p.sendsMax *= 2
		p.horizonHi *= 2
	}
	sc := &Scenario{Family: "session", Prop: prop, Seed: g.Uint64()}
	sc.FaultFree = g.p(p.faultFree)
	sc.Opts = genOpts(g, &p)
	o := &sc.Opts
	sc.HorizonMs = g.rng(p.horizonLo, p.horizonHi)
	pi, pt := o.PingIntervalMs, o.PingTimeoutMs
	if pi == 0 {
		pi = 25000
	}
	if pt == 0 {
		pt = 20000
	}
	if g.p(p.pHttpServer) {
		sc.Attach = &AttachSpec{UseHttpServer: true}
		// default mount: attach options with only server options keep /engine.io/
		sc.Attach.ServerOnly = false
		path := "/engine.io"
		sc.Attach.Path = &path
	}
	nc := g.rng(1, p.maxClients)
	wsOK, wtOK := false, false
	for _, t := range o.Transports {
		wsOK = wsOK || t == "websocket"
		wtOK = wtOK || t == "webtransport"
	}
	stream := func() string {
		if wtOK && (!wsOK || g.p(0.5)) {
			return "webtransport"
		}
		return "websocket"
	}
	for i := 0; i < nc; i++ {
		c := ClientSpec{Name: fmt.Sprintf("c%d", i+1), StartMs: g.pick(0, 0, 5, 50, 200), EIO: 4, Transport: "polling"}
		if o.AllowEIO3 && g.p(p.pEIO3/(p.pEIO3+0.2)) {
			c.EIO = 3
		}
		if !g.p(p.pPolling) && (wsOK || wtOK) {
			c.Transport = stream()
			if c.Transport == "webtransport" {
				c.EIO = 4 // the WebTransport handshake is revision 4 only
			}
		}
		if c.EIO == 3 && g.p(0.3) {
			// old clients: no EIO parameter at all, or another number - the server takes everything but 4 for revision 3
			c.EIO = g.pick(0, 2, 5)
		} else if c.EIO == 4 && c.Transport != "webtransport" && !o.AllowEIO3 && g.p(0.05) {
			// a revision-3 client knocking at a server that does not allow revision 3: refused with code 5, no session
			c.EIO = g.pick(3, 0, 2, 5)
		}
		if g.p(p.pB64) {
			c.B64 = true
		}
		if c.Transport == "polling" && g.p(0.15) {
			c.NoCL = true // a client (or proxy) that streams its request bodies: no Content-Length
		}
		if c.Transport == "polling" && g.p(p.pJSONP) {
			c.JSONP, c.B64, c.J = true, true, fmt.Sprint(g.IntN(20))
			if g.p(0.35) {
				// what a request can put into j: the response's index is the decimal digits of it, whatever else it holds
				c.J = g.picks("007", "1a2", "12x34", "0);alert(1);//", "a1", "1a", "3.5", "-1", "1 2", "0]()[1", "9e9", "١٢")
			}
		}
		if g.p(0.5) {
			c.AcceptEnc = g.picks("gzip", "deflate", "br", "zstd", "gzip, deflate, br", "identity", "gzip;q=1.0, br;q=0.5",
				"vibrant", "x-gzipped", "notzstd, identity", "br;q=0", "GZIP", "deflate , zstd;q=0.2")
		}
		if c.AcceptEnc != "" && c.Transport == "polling" && g.p(0.25) {
			// the client's data requests name other codings than its polls (a response is negotiated with the request it answers)
			c.AcceptEncPost = g.picks("br", "zstd", "gzip", "deflate", "identity", "zstd, br")
		}
		if o.Cors != nil || g.p(0.2) {
			c.Origin = g.picks("http://a.test", "http://b.test", "http://c.test", "http://evil.test")
		}
		// network: keep the fault-free budget  pongDelay + pollGap + 6*lat  well inside pingTimeout
		budget := pt / 2
		c.LatencyMs = g.pick(0, 0, 1, 5, 20)
		for 6*c.LatencyMs > budget/2 {
			c.LatencyMs /= 2
		}
		if g.p(0.2) && budget > 40 {
			c.PollGapMs = g.pick(1, 10)
		}
		rest := budget - 6*c.LatencyMs - c.PollGapMs
		if rest > 2 && g.p(0.4) {
			c.PongDelayMs = []int{g.pick(0, 1, rest/2, rest)}
		}
		if g.p(p.fragP) {
			c.Frag = []int{g.pick(1, 2, 3, 7), g.pick(1, 5, 64)}
		}
		if c.EIO != 4 {
			// the client pings often enough: interval+timeout is the deadline
			c.V3PingMs = g.pick(pi/2+1, pi, (pi+pt)/2)
			if c.V3PingMs+6*c.LatencyMs+c.PollGapMs+10 >= pi+pt {
				c.V3PingMs = (pi + pt) / 3
			}
			if c.V3PingMs < 5 {
				c.V3PingMs = 5
			}
		}
		if c.Transport == "polling" && (wsOK || wtOK) && o.AllowUpgrades && g.p(p.pUpgrade) {
			c.Upgrade = stream()
			// while upgrading, a client holds back its writes (pongs, v3 pings) until the
			// server's 100 ms check released the poll: heartbeat settings tighter than that
			// make a conformant client time out, which is not a fault-free scenario
			if (c.EIO == 4 && pt < 250+8*c.LatencyMs) || (c.EIO != 4 && pi+pt-c.V3PingMs-maxInt(c.PongDelayMs) < 250+8*c.LatencyMs) {
				c.Upgrade = ""
			}
			// an upgrade needs the 100 ms check tick to release the poll: an upgrade timeout
			// at or below that makes every conformant upgrade fail, which is not fault-free
			if c.Upgrade != "" && o.UpgradeTimeoutMs != 0 && o.UpgradeTimeoutMs < 300+8*c.LatencyMs {
				o.UpgradeTimeoutMs = 1000
			}
			if c.Upgrade == "webtransport" && c.EIO != 4 {
				c.Upgrade = ""
				if wsOK {
					c.Upgrade = "websocket"
				}
			}
			c.UpgradeAtMs = g.pick(0, 1, 10, 50, 100, 300, sc.HorizonMs/2)
		}
		// C08: a scripted (non-conformant or unusual) upgrade candidate, alone, or next to the conformant
		// upgrade (second candidate while the first is being entertained), optionally followed by a
		// conformant retry once the failed candidate is out of the way
		if c.Transport == "polling" && (wsOK || wtOK) && o.AllowUpgrades && g.p(p.pCandScript) {
			c.CandKind = stream()
			if c.CandKind == "webtransport" && c.EIO != 4 {
				c.CandKind = ""
				if wsOK {
					c.CandKind = "websocket"
				}
			}
			ut := o.UpgradeTimeoutMs
			if ut == 0 {
				ut = 10000
			}
			if c.CandKind != "" {
				// same constraints as for the conformant upgrade: a client that may end up switching holds
				// back its writes until the 100 ms check released its poll
				if (c.EIO == 4 && pt < 250+8*c.LatencyMs) || (c.EIO != 4 && pi+pt-c.V3PingMs-maxInt(c.PongDelayMs) < 250+8*c.LatencyMs) {
					c.CandKind = ""
				}
				if c.CandKind != "" && o.UpgradeTimeoutMs != 0 && o.UpgradeTimeoutMs < 300+8*c.LatencyMs {
					o.UpgradeTimeoutMs = 1000
					ut = 1000
				}
			}
			if c.CandKind != "" {
				c.Cand = genCandScript(g, ut, c.LatencyMs, !sc.FaultFree)
				// a script that ends up switching (probe ... upgrade with nothing else in between) must get there
				// before the upgrade timeout closes the candidate under it: its pauses share ut - 150 ms - latency
				clean, probeSeen, sum := true, false, 0
				for k, op := range c.Cand {
					switch op.Op {
					case "probe":
						probeSeen = true
					case "upgrade":
						if clean && probeSeen && op.Arg != "attimeout" {
							for j := 0; j <= k; j++ {
								sum += c.Cand[j].WaitMs
							}
							if budget := ut - 150 - 10*c.LatencyMs; sum > budget {
								for j := 0; j <= k; j++ {
									c.Cand[j].WaitMs = c.Cand[j].WaitMs * budget / (sum + 1)
								}
							}
						}
					case "wait", "waitpong":
					default:
						clean = false
					}
				}
				c.CandAtMs = g.pick(0, 1, 10, 50, 100, 300)
				if c.Upgrade != "" && g.p(p.pSecondCand) {
					// two candidates around the same time
					// (the last three aim at the instant the first candidate's upgrade packet is processed: probe,
					// poll released by the 100 ms tick, upgrade)
					c.UpgradeAtMs = c.CandAtMs + g.pick(-5, 0, 1, 5, 20, 60, 150, 100+2*c.LatencyMs, 100+3*c.LatencyMs, 100+4*c.LatencyMs)
					if c.UpgradeAtMs < 0 {
						c.UpgradeAtMs = 0
					}
				} else {
					c.Upgrade = ""
					if g.p(0.6) {
						// when is the scripted candidate out of the way?  The server closes it on the first packet that
						// is neither probe nor upgrade, the script may disconnect, a 'waitpong' without an outstanding
						// probe waits for the upgrade timeout, and a candidate left open lives until the upgrade timeout
						t, probes, ended := 0, 0, false
						for _, op := range c.Cand {
							t += op.WaitMs
							switch op.Op {
							case "probe":
								probes++
							case "waitpong":
								if probes == 0 {
									if t < ut {
										t = ut
									}
									ended = true
								} else {
									probes--
								}
							case "wait":
							case "upgrade", "disconnect":
								ended = true
							default:
								ended = true
							}
							if ended {
								break
							}
						}
						if !ended && t < ut {
							t = ut
						}
						c.Retry, c.RetryAtMs = true, c.CandAtMs+t+g.pick(150, 300, 600)+12*c.LatencyMs
						if c.RetryAtMs+700 > sc.HorizonMs {
							sc.HorizonMs = c.RetryAtMs + 700 + g.rng(0, 500)
						}
					}
				}
			}
		}
		ns := g.rng(0, p.clientSends)
		for k := 0; k < ns; k++ {
			m := ClientMsg{AtMs: g.rng(0, sc.HorizonMs*3/4), ID: fmt.Sprintf("%s.u%d", c.Name, k), Size: g.size(&p), Binary: g.p(p.pBinary)}
			if int64(m.Size) > 50000 {
				m.Size = 5000
			}
			if !m.Binary && g.p(0.25) {
				m.Chars = g.picks("html", "esc", "uni", "num", "esc")
				if m.Size < 12 {
					m.Size = g.pick(12, 20, 40)
				}
			}
			c.Sends = append(c.Sends, m)
		}
		if !sc.FaultFree {
			genClientFaults(g, &p, sc, &c, pi, pt)
		}
		sc.Clients = append(sc.Clients, c)
	}
	// C17: preflight requests against the configured CORS policy
	if prop == "C17" && o.Cors != nil {
		pf := ClientSpec{Name: "pf", Transport: "polling", EIO: 4, StartMs: g.pick(0, 100, 400)}
		for i, n := 0, g.rng(1, 3); i < n; i++ {
			h := map[string]string{"Origin": g.picks("http://a.test", "http://b.test", "http://c.test"), "Access-Control-Request-Method": g.picks("POST", "GET", "PUT")}
			if g.p(0.5) {
				h["Access-Control-Request-Headers"] = g.picks("X-A", "x-a, x-z", "Content-Type")
			}
			pf.Raw = append(pf.Raw, RawOp{Op: "http", Method: "OPTIONS", Query: "EIO=4&transport=polling", Hdr: h, AtMs: g.pick(0, 10)})
		}
		if sc.Attach != nil && sc.Attach.Path != nil {
			pf.Path = ""
		}
		sc.Clients = append(sc.Clients, pf)
	}
	// application
	nsend := g.rng(1, p.senders)
	slowUsed := map[string]bool{}
	for s := 0; s < nsend; s++ {
		task := fmt.Sprintf("s%d", s+1)
		n := g.rng(0, p.sendsMax)
		burst := g.p(0.4)
		at := g.rng(0, sc.HorizonMs/2)
		for k := 0; k < n; k++ {
			cl := sc.Clients[g.IntN(len(sc.Clients))]
			if len(cl.Raw) > 0 {
				cl = sc.Clients[0]
			}
			if !burst {
				at = g.rng(0, sc.HorizonMs*4/5)
			} else if g.p(0.3) {
				at += g.pick(0, 0, 1, 10, 100)
			}
			op := AppOp{AtMs: at, Task: task, Op: "send", Sess: cl.Name, ID: fmt.Sprintf("%s.%s.%d", cl.Name, task, k), Size: g.size(&p), Binary: g.p(p.pBinary), CB: g.p(p.pCB), UseWrite: g.p(0.1)}
			if !op.Binary && g.p(0.25) {
				op.Chars = g.picks("html", "esc", "uni", "num", "html")
				if op.Chars == "uni" && cl.EIO != 4 && !cl.B64 && !cl.JSONP && cl.Transport == "polling" && prop != "C16" {
					// a revision-3 binary-form payload (text and binary packets in one batch) with non-ASCII text trips a
					// defect of the parser dependency (known finding of C16) that ends the client: keep it to C16's runs
					op.Chars = "html"
				}
				if op.Size < 16 {
					op.Size = g.pick(16, 30, 60)
				}
			}
			if op.Binary && g.p(0.12) && !slowUsed[cl.Name] {
				// the reader holds up the batch it travels in, a ping included: one per session, and well inside the
				// heartbeat budget, or it becomes a (legitimate) cause of ping timeouts
				ms := g.pick(1, 5, 30)
				for ms > 1 && ms+6*cl.LatencyMs+cl.PollGapMs+maxInt(cl.PongDelayMs) >= pt/2 {
					ms /= 2
				}
				if ms+6*cl.LatencyMs+cl.PollGapMs+maxInt(cl.PongDelayMs) < pt/2 {
					op.SlowMs = ms
					slowUsed[cl.Name] = true
				}
			}
			if g.p(p.pNoCompress) {
				op.Opt = "nocompress"
			} else if g.p(p.pPreEncoded) && !o.PMD {
				op.Opt = "preencoded"
			}
			if len(sc.Clients) >= 2 && g.p(p.pBroadcast) {
				// the same message, with one shared options object (and pre-encoded frame), to every session
				op.Op, op.Sess, op.ID, op.SlowMs = "broadcast", "", fmt.Sprintf("bc.%s.%d", task, k), 0
				if op.Opt == "" && !o.PMD && g.p(0.6) {
					op.Opt = "preencoded"
				}
				if op.Chars == "uni" {
					op.Chars = "html"
				}
			}
			sc.App = append(sc.App, op)
		}
	}
	if !sc.FaultFree {
		for _, cl := range sc.Clients {
			if g.p(p.pAppClose) {
				sc.App = append(sc.App, AppOp{AtMs: g.rng(1, sc.HorizonMs*4/5), Task: "closer-" + cl.Name, Op: g.picks("close", "close", "close-discard"), Sess: cl.Name})
			}
		}
		if g.p(p.pServerClose) {
			op := "server-close"
			if sc.Attach != nil && g.p(0.5) {
				op = "http-close"
			}
			sc.App = append(sc.App, AppOp{AtMs: g.rng(1, sc.HorizonMs*4/5), Task: "shutdown", Op: op})
		}
	}
	if g.p(p.pReent) {
		n := g.rng(1, 2)
		for i := 0; i < n; i++ {
			sc.Reent = append(sc.Reent, ReentSpec{Event: g.picks("message", "packet", "packetCreate", "flush", "drain", "heartbeat", "upgrade", "upgrading", "close", "callback"), Call: g.picks("send", "send", "close", "close-discard"), Nth: g.rng(1, 3)})
		}
	}
	// Coincidences: independent causes are aimed at one virtual instant, because the defects of this code base
	// live in check-then-act windows a few statements wide (a close next to a close cause, an orderly close next
	// to the arriving poll, two requests of one kind, a send next to the switch).  A client's own clock starts
	// when it has processed the open packet: StartMs + 2*latency on every transport.
	if !sc.FaultFree && (g.p(0.35) || (prop == "C12" && g.p(0.3))) {
		ci := g.IntN(len(sc.Clients))
		c := &sc.Clients[ci]
		if len(c.Raw) == 0 {
			openAt := c.StartMs + 2*c.LatencyMs
			kind := g.IntN(5)
			if prop == "C12" && g.p(0.5) {
				kind = 1 // (the orderly close next to the arriving poll is C12's own window)
			}
			switch kind {
			case 0: // application close in the instant of a client-side fault / silence / orderly close
				at := -1
				if len(c.Faults) > 0 {
					at = c.Faults[g.IntN(len(c.Faults))].AtMs
				} else if c.CloseAtMs > 0 {
					at = c.CloseAtMs
				} else if c.UpgradeAtMs > 0 && c.Upgrade != "" {
					at = c.UpgradeAtMs + g.pick(0, 2*c.LatencyMs, 100+4*c.LatencyMs)
				}
				if at >= 0 {
					sc.App = append(sc.App, AppOp{AtMs: openAt + at + g.pick(0, 0, c.LatencyMs), Task: "coincide-" + c.Name, Op: g.picks("close", "close-discard", "close"), Sess: c.Name})
				}
			case 1: // orderly close in the instant the client's next poll arrives: a send answers the pending poll at T,
				// the client polls again one response latency, its think time and one request latency later
				if c.Transport == "polling" {
					t := g.rng(20, sc.HorizonMs/2)
					id := fmt.Sprintf("%s.co.%d", c.Name, len(sc.App))
					sc.App = append(sc.App, AppOp{AtMs: openAt + t, Task: "coincide-" + c.Name, Op: "send", Sess: c.Name, ID: id, Size: 8})
					if 2*c.LatencyMs+c.PollGapMs > 0 && g.p(0.6) {
						// ... and a message sent while the client has no poll out stays buffered until that poll arrives:
						// the poll's own flush takes it in the instant of the close
						sc.App = append(sc.App, AppOp{AtMs: openAt + t + g.rng(0, 2*c.LatencyMs+c.PollGapMs-1), Task: "coincide-" + c.Name, Op: "send", Sess: c.Name, ID: id + "b", Size: 8})
					}
					sc.App = append(sc.App, AppOp{AtMs: openAt + t + 2*c.LatencyMs + c.PollGapMs, Task: "coincide2-" + c.Name, Op: "close", Sess: c.Name})
				}
			case 2: // a duplicated request in the very instant of the original
				if c.Transport == "polling" {
					if g.p(0.5) {
						c.Faults = append(c.Faults, FaultSpec{AtMs: 0, Kind: "dup-poll"})
					} else if len(c.Sends) > 0 {
						c.Faults = append(c.Faults, FaultSpec{AtMs: c.Sends[g.IntN(len(c.Sends))].AtMs, Kind: "dup-post"})
					}
				}
			case 3: // server shutdown in the instant of a handshake or of an upgrade
				at := c.StartMs + g.pick(0, c.LatencyMs)
				if c.Upgrade != "" && g.p(0.5) {
					at = openAt + c.UpgradeAtMs + g.pick(0, c.LatencyMs, 2*c.LatencyMs, 4*c.LatencyMs, 5*c.LatencyMs, 100+4*c.LatencyMs, 100+5*c.LatencyMs, 100+5*c.LatencyMs)
				}
				sc.App = append(sc.App, AppOp{AtMs: at, Task: "shutdown", Op: "server-close"})
			default: // the client gives up (reset / abort) in the instant the application sends
				if len(c.Faults) > 0 {
					f := c.Faults[g.IntN(len(c.Faults))]
					id := fmt.Sprintf("%s.co.%d", c.Name, len(sc.App))
					sc.App = append(sc.App, AppOp{AtMs: openAt + f.AtMs, Task: "coincide-" + c.Name, Op: "send", Sess: c.Name, ID: id, Size: g.pick(1, 8, 200), CB: g.p(0.5)})
				}
			}
		}
	}
	// C12/C03: a graceful close whose client never comes back - the 30 s close timeout has to end the session,
	// with the application's reason.  Needs a horizon beyond those 30 s and a heartbeat that does not fire first.
	if (prop == "C12" || prop == "C03") && !sc.FaultFree && g.p(0.08) {
		c := &sc.Clients[0]
		if c.Transport == "polling" && c.Upgrade == "" && len(c.Cand) == 0 && len(c.Raw) == 0 {
			o.PingIntervalMs, o.PingTimeoutMs = 0, 0 // defaults: 25 s + 20 s
			for ci := range sc.Clients {
				sc.Clients[ci].V3PingMs = 0
				sc.Clients[ci].PongDelayMs = nil
			}
			c.Faults, c.CloseAtMs, c.AbortHS = nil, 0, false
			c.StopAtMs = g.rng(100, 600)
			closeAt := c.StartMs + c.StopAtMs + 6*c.LatencyMs + g.pick(50, 200, 1000)
			var app []AppOp
			for _, op := range sc.App {
				if op.Sess != c.Name || (op.Op == "send" && op.AtMs < closeAt-20) {
					app = append(app, op)
				}
			}
			sc.App = append(app, AppOp{AtMs: closeAt, Task: "closer-" + c.Name, Op: "close", Sess: c.Name})
			sc.HorizonMs = closeAt + 30000 + g.pick(500, 2000)
		}
	}
	// C12: the last batch of a graceful close carries data that takes its time (a slow io.Reader), handed over while no
	// poll is pending; the client meanwhile goes on submitting - the session must not be gone (its requests refused)
	// before the response that carries its last packets is out
	if prop == "C12" && !sc.FaultFree && g.p(0.08) {
		c := &sc.Clients[0]
		ms := g.pick(10, 30)
		if c.Transport == "polling" && c.Upgrade == "" && len(c.Cand) == 0 && len(c.Raw) == 0 && c.StopAtMs == 0 && c.CloseAtMs == 0 && ms+6*c.LatencyMs+30 < pt/2 {
			c.PollGapMs = g.pick(10, 30)
			openAt := c.StartMs + 2*c.LatencyMs
			t := g.rng(100, sc.HorizonMs/2)
			sc.App = append(sc.App, AppOp{AtMs: openAt + t, Task: "slowlast-" + c.Name, Op: "send", Sess: c.Name, ID: c.Name + ".sl", Size: 8, Binary: true, SlowMs: ms})
			sc.App = append(sc.App, AppOp{AtMs: openAt + t + g.pick(1, 3), Task: "closer2-" + c.Name, Op: "close", Sess: c.Name})
			for k := 0; k < 3; k++ {
				c.Sends = append(c.Sends, ClientMsg{AtMs: t + g.pick(2, 8, 15, 25, 40), ID: fmt.Sprintf("%s.k%d", c.Name, k), Size: 6})
			}
		}
	}
	// the application's connection listener closes the session it has just been handed, or takes its time while the
	// client goes away: the registry has to follow (C04), a later request naming the session is refused (C05)
	if (prop == "C04" || prop == "C05" || prop == "C03" || prop == "C06") && !sc.FaultFree && g.p(0.12) {
		cl := sc.Clients[g.IntN(len(sc.Clients))]
		if len(cl.Raw) == 0 {
			r := ReentSpec{Event: "connection", Call: g.picks("close-discard", "close", "sleep", "close-discard"), Sess: cl.Name, Nth: 1}
			if r.Call == "sleep" {
				// (the handshake response is out only when the listener has returned: it has to stay well inside the
				// heartbeat budget, or it becomes a legitimate cause of ping timeouts)
				r.Ms = g.pick(5, 20, 50)
				for r.Ms > 1 && r.Ms+6*cl.LatencyMs+cl.PollGapMs >= pt/3 {
					r.Ms /= 2
				}
			}
			if r.Call != "sleep" || r.Ms+6*cl.LatencyMs+cl.PollGapMs < pt/3 {
				sc.Reent = append(sc.Reent, r)
			}
		}
	}
	// a WebSocket peer that goes silent and stops reading: the server's writer goroutine stalls on the full window in
	// the middle of a batch, and the application closes the session (or the server) meanwhile
	if (prop == "C03" || prop == "C12" || prop == "C09" || prop == "C18") && !sc.FaultFree && g.p(0.06) {
		for ci := range sc.Clients {
			c := &sc.Clients[ci]
			if c.Transport != "websocket" || len(c.Raw) > 0 || c.CloseAtMs > 0 {
				continue
			}
			t := g.rng(100, sc.HorizonMs/2)
			c.StopAtMs, c.RecvWindow, c.Faults = t, g.pick(64, 256, 1024), nil
			openAt := c.StartMs + 2*c.LatencyMs
			sc.App = append(sc.App, AppOp{AtMs: openAt + t + 5, Task: "stall-" + c.Name, Op: "send", Sess: c.Name, ID: c.Name + ".st0", Size: 5000})
			sc.App = append(sc.App, AppOp{AtMs: openAt + t + 6, Task: "stall-" + c.Name, Op: "send", Sess: c.Name, ID: c.Name + ".st1", Size: 8})
			sc.App = append(sc.App, AppOp{AtMs: openAt + t + g.pick(10, 50), Task: "stallclose-" + c.Name, Op: g.picks("close-discard", "close", "close-discard"), Sess: c.Name})
			break
		}
	}
	// C18: a 'close' listener that takes its time while the last batch (with send callbacks) is still with the transport:
	// callbacks of a session that has closed are dropped, not run late
	if prop == "C18" && !sc.FaultFree && g.p(0.15) {
		cl := sc.Clients[g.IntN(len(sc.Clients))]
		if len(cl.Raw) == 0 {
			sc.Reent = append(sc.Reent, ReentSpec{Event: "close", Call: "sleep", Ms: g.pick(10, 40), Sess: cl.Name, Nth: 1})
		}
	}
	// C07: an application 'heartbeat' listener that takes time must not disturb the heartbeat itself (the
	// timers are dealt with before the event is emitted)
	if prop == "C07" && g.p(0.25) {
		cl := sc.Clients[g.IntN(len(sc.Clients))]
		if len(cl.Raw) == 0 {
			lim := pt - 20
			if lim > 400 {
				lim = 400
			}
			if lim >= 5 {
				sc.Reent = append(sc.Reent, ReentSpec{Event: "heartbeat", Call: "sleep", Ms: g.pick(lim/4+1, lim/2+1, lim), Sess: cl.Name, Nth: g.rng(1, 3)})
			}
		}
	}
	// C11: a send callback that takes time: the poll it belongs to has long been answered, the client polls again
	if prop == "C11" && g.p(0.2) {
		for ci := range sc.Clients {
			c := &sc.Clients[ci]
			if c.Transport != "polling" || len(c.Raw) > 0 || !g.p(0.6) {
				continue
			}
			ms := 2*c.LatencyMs + c.PollGapMs + g.pick(2, 5, 15)
			if ms+4*c.LatencyMs >= pt/3 {
				continue
			}
			sc.Reent = append(sc.Reent, ReentSpec{Event: "callback", Call: "sleep", Ms: ms, Sess: c.Name, Nth: g.rng(1, 2)})
			at := g.rng(30, sc.HorizonMs/2)
			for k := 0; k < 2; k++ {
				sc.App = append(sc.App, AppOp{AtMs: at + k*g.pick(1, 10, 40), Task: "slowcb-" + c.Name, Op: "send", Sess: c.Name, ID: fmt.Sprintf("%s.scb.%d", c.Name, k), Size: 8, CB: true})
			}
		}
	}
	// C11: a message listener that takes time keeps its data request in flight across virtual instants; an
	// overlapping data request, an application close or a client abort is then aimed into that window
	if !sc.FaultFree && ((prop == "C11" && g.p(0.4)) || (prop == "C17" && g.p(0.3))) {
		for ci := range sc.Clients {
			c := &sc.Clients[ci]
			if c.Transport != "polling" || c.Upgrade != "" || len(c.Cand) > 0 || len(c.Raw) > 0 || !g.p(0.7) {
				continue
			}
			ms := g.pick(10, 30, 80)
			// while the listener sleeps the client's single data-request pipeline is blocked, pongs included: the
			// listener must stay well inside the ping timeout or it becomes a (legitimate) cause of ping timeouts
			for ms > 5 && ms+4*c.LatencyMs+c.PollGapMs+maxInt(c.PongDelayMs) >= pt/2 {
				ms /= 2
			}
			if ms+4*c.LatencyMs+c.PollGapMs+maxInt(c.PongDelayMs) >= pt/2 {
				continue
			}
			t := g.rng(50, sc.HorizonMs/2)
			c.Sends = append(c.Sends, ClientMsg{AtMs: t, ID: c.Name + ".slow", Size: 10})
			nth := 1
			for _, m := range c.Sends {
				if m.AtMs < t {
					nth++
				}
			}
			sc.Reent = append(sc.Reent, ReentSpec{Event: "message", Call: "sleep", Ms: ms, Sess: c.Name, Nth: nth})
			arrive := t + c.LatencyMs
			switch g.IntN(4) {
			case 0, 1:
				c.Faults = append(c.Faults, FaultSpec{AtMs: arrive + g.pick(1, ms/2, ms-1), Kind: "dup-post"})
			case 2:
				if g.p(0.5) {
					// the close lands in the very instant the listener returns and the request is acknowledged
					sc.Reent[len(sc.Reent)-1].Then = g.picks("close", "close-discard")
				} else {
					sc.App = append(sc.App, AppOp{AtMs: c.StartMs + arrive + 2*c.LatencyMs + g.pick(1, ms/2, ms-1), Task: "closer-" + c.Name, Op: g.picks("close", "close-discard"), Sess: c.Name})
				}
			default:
				c.Faults = append(c.Faults, FaultSpec{AtMs: arrive + g.pick(1, ms/2, ms), Kind: "abort-post"})
			}
		}
	}
	// C02 (and C08's no-loss clause): a data request with two messages whose dispatch is held up by a slow message
	// listener, and an impatient client: it submits a further message on a data request of its own, or switches to
	// its upgrade candidate and submits the message there, while the first request is still being served. Whatever
	// the server makes of that, what it delivers must keep the order of submission.
	if (prop == "C02" || prop == "C08") && !sc.FaultFree && g.p(0.3) {
		for ci := range sc.Clients {
			c := &sc.Clients[ci]
			if c.Transport != "polling" || c.Upgrade != "" || len(c.Cand) > 0 || len(c.Raw) > 0 || c.CloseAtMs > 0 || c.StopAtMs > 0 {
				continue
			}
			ms := g.pick(10, 30, 80)
			for ms > 5 && ms+4*c.LatencyMs+c.PollGapMs+maxInt(c.PongDelayMs) >= pt/2 {
				ms /= 2
			}
			if ms+4*c.LatencyMs+c.PollGapMs+maxInt(c.PongDelayMs) >= pt/2 || ms < 4 {
				continue
			}
			t := g.rng(150, sc.HorizonMs/2)
			var keep []ClientMsg
			for _, m := range c.Sends {
				// nothing else of this client's is on its way around the window
				if m.AtMs < t-4*c.LatencyMs-20 || m.AtMs > t+ms+6*c.LatencyMs+20 {
					keep = append(keep, m)
				}
			}
			c.Sends = append(keep, ClientMsg{AtMs: t, ID: c.Name + ".slow", Size: 10}, ClientMsg{AtMs: t, ID: c.Name + ".slowb", Size: 10})
			nth := 1
			for _, m := range c.Sends {
				if m.AtMs < t {
					nth++
				}
			}
			sc.Reent = append(sc.Reent, ReentSpec{Event: "message", Call: "sleep", Ms: ms, Sess: c.Name, Nth: nth})
			arrive := t + c.LatencyMs
			if (wsOK || wtOK) && o.AllowUpgrades && c.LatencyMs*5 < ms-2 && g.p(0.6) {
				// the candidate's upgrade packet arrives 5 latencies after the candidate was opened
				c.CandKind = "websocket"
				if !wsOK || (wtOK && c.EIO == 4 && g.p(0.3)) {
					c.CandKind = "webtransport"
				}
				if c.CandKind == "webtransport" && c.EIO != 4 {
					continue
				}
				c.Cand = []CandOp{{Op: "probe"}, {Op: "waitpong"}, {Op: "upgrade", Arg: "nopause"}, {Op: "msg", Arg: c.Name + ".after", WaitMs: g.pick(0, 1, (ms-5*c.LatencyMs)/2)}}
				c.CandAtMs = arrive + 1
			} else {
				c.Faults = append(c.Faults, FaultSpec{AtMs: arrive + g.pick(1, ms/2, ms-1), Kind: "late-post"})
			}
			break
		}
	}
	sc.Policy, sc.HotFuncs = genPolicy(g, p.hot, 4000*nc+2000)
	impatient := false
	for _, c := range sc.Clients {
		for _, f := range c.Faults {
			impatient = impatient || f.Kind == "late-post"
		}
		for _, op := range c.Cand {
			impatient = impatient || op.Arg == "nopause"
		}
	}
	// (not next to an impatient client: the order of two submissions on different connections is defined only as
	// long as the server's handlers take no time - a stalled handler is a delayed request)
	if prop == "C08" && !sc.FaultFree && !impatient && g.p(0.3) {
		// stalled tasks: a pre-empted task loses a few virtual milliseconds, so timers fall due in the middle of a
		// handler (the candidate's upgrade timeout inside the switch, the check tick inside a flush)
		sc.Policy.StallMs = g.pick(1, 3, 10)
		sc.Policy.StallP = 0.01
		if sc.Policy.Kind == "fifo" || sc.Policy.Kind == "pct" {
			sc.Policy.StallP = 0.5
		}
	}
	sc.MaxSteps = 60000
	if thorough {
		sc.MaxSteps = 400000 // longer horizons, more clients
	}
	return sc
}

func genClientFaults(g *G, p *profile, sc *Scenario, c *ClientSpec, pi, pt int) {
	h := sc.HorizonMs
	if g.p(p.pLatePong) && c.EIO == 4 {
		c.PongDelayMs = []int{0, g.pick(pt-1, pt, pt+1, pt+50, -1)}
		if g.p(0.5) {
			c.PongDelayMs = []int{g.pick(pt-1, pt, pt+1, -1)}
		}
	}
	if c.EIO != 4 && c.V3PingMs > 0 && g.p(p.pLatePong) {
		// a revision-3 client whose pings arrive around the deadline (interval + timeout after the previous one):
		// just in time, exactly at the deadline instant, just too late
		c.V3PingMs = pi + pt + g.pick(-1, 0, 0, 1) - 2*c.LatencyMs
		c.PongDelayMs = nil
		if c.V3PingMs < 5 {
			c.V3PingMs = 5
		}
	}
	if c.EIO == 4 && g.p(p.pLatePong*0.6) {
		// unsolicited / duplicated pongs at arbitrary instants (before the first ping, between ping and deadline, after a pong)
		n := g.rng(1, 3)
		for i := 0; i < n; i++ {
			c.Faults = append(c.Faults, FaultSpec{AtMs: g.rng(0, h*4/5), Kind: "extra-pong", Arg: g.pick(1, 1, 2)})
		}
	}
	if g.p(p.pSilence) {
		c.StopAtMs = g.rng(1, h*3/4)
	}
	if g.p(p.pClientClose) {
		c.CloseAtMs = g.rng(1, h*4/5)
		if c.Transport == "polling" && g.p(0.5) {
			c.CloseTrail = g.rng(1, 2)
		}
	}
	if c.Transport == "polling" && g.p(p.pClientFault*0.15) {
		c.AbortHS = true
	}
	if g.p(p.pClientFault) {
		n := g.rng(1, 2)
		for i := 0; i < n; i++ {
			kinds := []string{"abort-poll", "abort-post", "dup-poll", "dup-post", "bad-packet", "wrong-heartbeat"}
			if c.Transport != "polling" || c.Upgrade != "" {
				kinds = append(kinds, "reset", "eof", "reset", "eof")
			}
			c.Faults = append(c.Faults, FaultSpec{AtMs: g.rng(0, h*4/5), Kind: kinds[g.IntN(len(kinds))]})
		}
	}
}

// genCandScript draws an upgrade candidate's script over the packet alphabet: unexpected first
// packets, probes that are never followed up (upgrade timeout), repeated probes, a proper probe
// followed by something else than 'upgrade', disconnects at every stage, and the conformant
// sequence with unusual pauses.
func genCandScript(g *G, upgradeTimeoutMs, latMs int, tie bool) []CandOp {
	var s []CandOp
	other := func() CandOp {
		switch g.IntN(7) {
		case 0:
			return CandOp{Op: "ping", Arg: g.picks("", "xyz", "probe2")}
		case 1:
			return CandOp{Op: "pong", Arg: g.picks("", "probe")}
		case 2:
			return CandOp{Op: "msg", Arg: fmt.Sprintf("cand-%d", g.IntN(100))}
		case 3:
			return CandOp{Op: "noop"}
		case 4:
			return CandOp{Op: "garbage", Arg: "zz"}
		case 5:
			return CandOp{Op: "closepkt"}
		default:
			return CandOp{Op: "upgrade"}
		}
	}
	long := upgradeTimeoutMs + g.pick(50, 200)
	if long > 3000 {
		long = g.pick(400, 1500)
	}
	kind := g.IntN(11)
	if kind == 10 && !tie {
		kind = 6 // (a race against the timeout has two legal outcomes, one of which costs the client its connection)
	}
	switch kind {
	case 10: // the conformant sequence, its upgrade packet arriving around the instant the upgrade timeout is due
		// (the candidate is 4 latencies old when it has its pong: opening, acceptance, probe, pong)
		w := upgradeTimeoutMs - 4*latMs + g.pick(-5, -2, -1, -1, 0, 0, 1)
		if w < 0 {
			w = 0
		}
		switch g.IntN(3) {
		case 0: // ... or its connection ending (close frame / stream end) around that instant
			s = append(s, CandOp{Op: "probe"}, CandOp{Op: "waitpong"}, CandOp{Op: "disconnect", WaitMs: w + g.pick(0, latMs)})
		default:
			s = append(s, CandOp{Op: "probe"}, CandOp{Op: "waitpong"}, CandOp{Op: "upgrade", WaitMs: w, Arg: "attimeout"})
		}
	case 0: // unexpected first packet
		s = append(s, other())
	case 1: // silent candidate: the upgrade timeout has to clean up
		s = append(s, CandOp{Op: "wait", WaitMs: long})
	case 2: // probe, then silence
		s = append(s, CandOp{Op: "probe"}, CandOp{Op: "waitpong"}, CandOp{Op: "wait", WaitMs: long})
	case 3: // probe, then something else than upgrade
		s = append(s, CandOp{Op: "probe"}, CandOp{Op: "waitpong"}, other())
	case 4: // disconnect at some stage
		if g.p(0.5) {
			s = append(s, CandOp{Op: "probe"})
			if g.p(0.5) {
				s = append(s, CandOp{Op: "waitpong"})
			}
		}
		s = append(s, CandOp{Op: "disconnect", WaitMs: g.pick(0, 1, 50, 150)})
	case 5: // repeated probes, then the switch
		n := g.rng(2, 4)
		for i := 0; i < n; i++ {
			s = append(s, CandOp{Op: "probe", WaitMs: g.pick(0, 0, 30, 120)})
		}
		for i := 0; i < n; i++ {
			s = append(s, CandOp{Op: "waitpong"})
		}
		if g.p(0.7) {
			s = append(s, CandOp{Op: "upgrade"})
		} else {
			s = append(s, CandOp{Op: "disconnect"})
		}
	case 6: // the conformant sequence with pauses (slow candidate)
		s = append(s, CandOp{Op: "probe", WaitMs: g.pick(0, 20, 80, 250)}, CandOp{Op: "waitpong"}, CandOp{Op: "upgrade", WaitMs: g.pick(0, 50, 150, 400)})
	default: // random walk over the alphabet
		n := g.rng(1, 5)
		for i := 0; i < n; i++ {
			switch g.IntN(4) {
			case 0:
				s = append(s, CandOp{Op: "probe", WaitMs: g.pick(0, 0, 10, 100)})
			case 1:
				s = append(s, CandOp{Op: "waitpong"})
			case 2:
				s = append(s, CandOp{Op: "wait", WaitMs: g.pick(10, 100, 300)})
			default:
				o := other()
				o.WaitMs = g.pick(0, 0, 10, 100)
				s = append(s, o)
			}
		}
	}
	return s
}

func maxInt(xs []int) int {
	m := 0
	for _, x := range xs {
		if x > m {
			m = x
		}
	}
	return m
}
