package sim

import (
	"bufio"
	"encoding/binary"
	"encoding/json"
	"fmt"
	"os"
	"regexp"
	"sort"
	"strconv"
	"strings"
	"sync/atomic"
	"testing"
	"time"

	"github.com/zishang520/engine.io/v2/simrt"
)

func envInt(k string, d int64) int64 {
	if v := os.Getenv(k); v != "" {
		if n, err := strconv.ParseInt(v, 10, 64); err == nil {
			return n
		}
	}
	return d
}

// generators: property -> scenario generator(s).
type genFn func(prop string, seed uint64, thorough bool) *Scenario

var generators = map[string][]genFn{}

func init() {
	for _, p := range []string{"C01", "C02", "C03", "C04", "C06", "C07", "C08", "C12", "C16", "C17", "C18"} {
		generators[p] = append(generators[p], GenSession)
	}
	generators["C11"] = []genFn{genC11Mix}
	generators["C05"] = []genFn{genC05Mix}
	generators["C09"] = []genFn{genC09Mix}
}

// C09 is mostly about hostile input, but "no client input ... can make the process panic" also covers what
// conformant clients do at awkward moments: one run in three comes from the session generator (all fault classes).
func genC09Mix(prop string, seed uint64, thorough bool) *Scenario {
	if splitmix64(seed^0xc09)%3 == 0 {
		return GenSession(prop, seed, thorough)
	}
	return GenHostile(prop, seed, thorough)
}

// C05's admission decision depends on the state of the session a request names: one run in four is a whole-session
// scenario (sessions that are closing, upgrading, closed in the instant of the request) judged by the clause "a
// request naming a session that has not closed is admitted".
func genC05Mix(prop string, seed uint64, thorough bool) *Scenario {
	if splitmix64(seed^0xc05)%4 == 0 {
		return GenSession(prop, seed, thorough)
	}
	return GenAdmission(prop, seed, thorough)
}

// C11 also looks at what raw (non-conformant) clients do to the request discipline: every request the server
// accepts gets exactly one response whatever it carries.  One run in four comes from the hostile generator.
func genC11Mix(prop string, seed uint64, thorough bool) *Scenario {
	if splitmix64(seed^0xc11)%4 == 0 {
		sc := GenHostile(prop, seed, thorough)
		sc.Prop = prop
		return sc
	}
	return GenSession(prop, seed, thorough)
}

// WorkerStats is what one worker process reports.
type WorkerStats struct {
	Prop         string         `json:"prop"`
	Worker       int            `json:"worker"`
	Runs         int            `json:"runs"`
	WallS        float64        `json:"wall_s"`
	Yields       int64          `json:"yields"`
	Steps        int64          `json:"steps"`
	Preempts     int64          `json:"preempts"`
	VirtualMs    int64          `json:"virtual_ms"`
	Events       int64          `json:"events"`
	Faults       map[string]int `json:"faults"`
	Probes       map[string]int `json:"probes"`
	Policies     map[string]int `json:"policies"`
	Outcomes     map[string]int `json:"outcomes"`
	Families     map[string]int `json:"families"`
	FaultFree    int            `json:"fault_free_runs"`
	Distinct     int            `json:"distinct_traces"`
	States       []string       `json:"states"`
	OtherProps   map[string]int `json:"other_property_observations"`
	Known        map[string]int `json:"known_hits"`
	Violations   []ReportedViol `json:"violations"`
	Incon        int            `json:"inconclusive"`
	Samples      []any          `json:"samples"`
	Leftovers    int            `json:"bubble_leftovers"`
	ToolTrouble  []string       `json:"tool_trouble"`
	FirstSeed    uint64         `json:"first_seed"`
	MinimiseRuns int            `json:"minimise_runs"`
	Truncated    int            `json:"truncated_runs"`
}

type ReportedViol struct {
	Sig    string `json:"sig"`
	Msg    string `json:"msg"`
	Replay string `json:"replay"`
	Seed   int64  `json:"run_index"`
	// the original (un-minimised) run, for a sequence replay should the minimal case not reproduce in a fresh process
	OrigTrace  uint64 `json:"orig_trace"`
	OrigEvents uint64 `json:"orig_events"`
	OrigMsg    string `json:"orig_msg"`
}

var slugRe = regexp.MustCompile(`[^A-Za-z0-9]+`)

func slug(s string) string {
	s = strings.Trim(slugRe.ReplaceAllString(s, "-"), "-")
	if len(s) > 60 {
		s = s[:60]
	}
	return s
}

// spin watchdog: a run that does not end within wallLimit of real time is a
// CPU spin in code the scheduler cannot pre-empt (a dependency, or a loop
// without statements).  The scenario is written out and the process exits 3;
// the supervisor decides what that means for the property.
type runInfo struct {
	start time.Time
	sc    *Scenario
	idx   int64
	seed  int64
}

var curRun atomic.Pointer[runInfo]

func startWatchdog(prop, dir string) {
	limit := time.Duration(envInt("VERIF_SPIN_S", 120)) * time.Second
	go func() {
		var lastProg uint64
		var lastRun *runInfo
		lastMove := time.Now()
		for {
			time.Sleep(500 * time.Millisecond)
			ri := curRun.Load()
			// a spin is a run whose scheduler makes no progress at all (no hand-off, no yield point) for the whole
			// limit: a run that is merely long, or a loaded machine, keeps moving and is left alone (hard cap: 20 x limit)
			if p := simrt.Progress.Load(); p != lastProg || ri != lastRun {
				lastProg, lastRun, lastMove = p, ri, time.Now()
			}
			if ri == nil || (time.Since(lastMove) < limit && time.Since(ri.start) < 20*limit) {
				continue
			}
			rf := &ReplayFile{Property: prop, Signature: "work-in-proportion/spin", Message: fmt.Sprintf("run %d did not finish within %v of wall-clock time: a task spins without reaching a yield point", ri.idx, limit), VerifSeed: ri.seed, RunIndex: ri.idx, Scenario: ri.sc, Spin: true}
			path := fmt.Sprintf("%s/%s-spin-%d-%d.json", dir, prop, ri.seed, ri.idx)
			if dir == "" {
				path = fmt.Sprintf("/tmp/%s-spin-%d-%d.json", prop, ri.seed, ri.idx)
			}
			os.WriteFile(path, rf.JSON(), 0o644)
			fmt.Printf("SPIN %s\n", path)
			os.Exit(3)
		}
	}()
}

// TestWorker is the process entry point used by /verif/check.
func TestWorker(t *testing.T) {
	prop := os.Getenv("VERIF_PROP")
	if prop == "" {
		t.Skip("VERIF_PROP not set")
	}
	if rp := os.Getenv("VERIF_REPLAY"); rp != "" {
		replayFile(t, prop, rp)
		return
	}
	gens := generators[prop]
	if len(gens) == 0 {
		fmt.Printf("TOOL-TROUBLE no generator for %s\n", prop)
		os.Exit(2)
	}
	verifSeed := envInt("VERIF_SEED", 1)
	worker := int(envInt("VERIF_WORKER", 0))
	nworkers := int(envInt("VERIF_NWORKERS", 1))
	budget := time.Duration(envInt("VERIF_BUDGET_S", 10)) * time.Second
	maxRuns := envInt("VERIF_MAXRUNS", 1<<40)
	thorough := os.Getenv("VERIF_TIER") == "thorough"
	outDir := os.Getenv("VERIF_OUT")
	replayDir := os.Getenv("VERIF_REPLAYS")
	var knownPats []string
	for _, k := range strings.Split(os.Getenv("VERIF_KNOWN"), "\n") {
		if k != "" {
			knownPats = append(knownPats, k)
		}
	}
	isKnown := func(sig string) bool {
		for _, p := range knownPats {
			if p == sig || globMatch(p, sig) {
				return true
			}
		}
		return false
	}
	maxNew := int(envInt("VERIF_MAXNEW", 3))
	startWatchdog(prop, replayDir)

	st := &WorkerStats{Prop: prop, Worker: worker, Faults: map[string]int{}, Probes: map[string]int{}, Policies: map[string]int{}, Outcomes: map[string]int{}, Families: map[string]int{}, OtherProps: map[string]int{}, Known: map[string]int{}}
	traces := map[uint64]bool{}
	states := map[string]bool{}
	reported := map[string]bool{}
	start := time.Now()
	for k := int64(0); k < maxRuns && time.Since(start) < budget; k++ {
		idx := int64(worker) + k*int64(nworkers)
		seed := runSeed(verifSeed, idx)
		if k == 0 {
			st.FirstSeed = seed
		}
		gen := gens[int(idx/int64(nworkers))%len(gens)]
		if len(gens) > 1 {
			gen = gens[int(splitmix64(seed)%uint64(len(gens)))]
		}
		genRunIndex = idx
		sc := gen(prop, seed, thorough)
		curRun.Store(&runInfo{start: time.Now(), sc: sc, idx: idx, seed: verifSeed})
		res := RunScenario(t, sc, simrt.NewPolicy(sc.Policy), true)
		curRun.Store(nil)
		st.Runs++
		st.Yields += int64(res.Yields)
		st.Steps += int64(res.Steps)
		st.Preempts += int64(res.Preempts)
		st.VirtualMs += res.VirtualMs
		st.Events += int64(res.NEvents)
		st.Outcomes[res.Outcome]++
		st.Families[sc.Family]++
		st.Policies[sc.Policy.Kind]++
		st.Incon += res.Incon
		if sc.FaultFree {
			st.FaultFree++
		}
		if res.Leftover {
			st.Leftovers++
		}
		for f, n := range res.Faults {
			st.Faults[f] += n
		}
		for f, n := range res.Probes {
			if !strings.HasPrefix(f, "reent:") {
				st.Probes[f] += n
			}
		}
		traces[res.TraceHash^res.EventHash] = true
		for _, s := range res.States {
			if len(states) < 5000 {
				states[s] = true
			}
		}
		if res.Outcome == "steps" || res.Outcome == "yields" {
			judged := false
			for _, v := range res.Viol {
				if v.Rule == "work-in-proportion" {
					judged = true // for hostile-client scenarios a runaway run is a verdict, not tool trouble
				}
			}
			if !judged {
				// a run cut off by its step bound is a bounded run, not a verdict and not a malfunction: it is counted
				// (evidence: truncated_runs); only a batch in which more than 1 % of the runs are cut off is tool trouble
				st.Truncated++
				if st.Truncated*100 > st.Runs+100 {
					st.ToolTrouble = append(st.ToolTrouble, fmt.Sprintf("%d of %d runs hit their step limit (last: run %d, %s)", st.Truncated, st.Runs, idx, res.Outcome))
				}
			}
		}
		if len(st.Samples) < 2 && k%7 == 0 {
			st.Samples = append(st.Samples, map[string]any{"run_index": idx, "scenario": sc, "outcome": res.Outcome, "steps": res.Steps, "yields": res.Yields, "events": res.NEvents})
		}
		seenSig := map[string]bool{}
		for _, v := range res.Viol {
			if v.Prop != prop {
				st.OtherProps[v.Prop+":"+v.Sig]++
				continue
			}
			if seenSig[v.Sig] {
				continue
			}
			seenSig[v.Sig] = true
			if isKnown(v.Sig) {
				st.Known[v.Sig]++
				continue
			}
			if reported[v.Sig] || len(reported) >= maxNew {
				continue
			}
			reported[v.Sig] = true
			rv := reportViolation(t, st, prop, v, sc, res, verifSeed, idx, replayDir)
			st.Violations = append(st.Violations, rv)
		}
	}
	st.WallS = time.Since(start).Seconds()
	st.Distinct = len(traces)
	st.States = sortedKeys(states)
	if outDir != "" {
		b, _ := json.Marshal(st)
		os.WriteFile(fmt.Sprintf("%s/worker-%d.json", outDir, worker), b, 0o644)
		f, err := os.Create(fmt.Sprintf("%s/traces-%d.bin", outDir, worker))
		if err == nil {
			bw := bufio.NewWriter(f)
			hs := make([]uint64, 0, len(traces))
			for h := range traces {
				hs = append(hs, h)
			}
			sort.Slice(hs, func(i, j int) bool { return hs[i] < hs[j] })
			for _, h := range hs {
				binary.Write(bw, binary.LittleEndian, h)
			}
			bw.Flush()
			f.Close()
		}
	} else {
		b, _ := json.MarshalIndent(st, "", " ")
		fmt.Println(string(b))
	}
}

// reportViolation minimises, confirms by strict in-process replay, and writes the replay file.
func reportViolation(t *testing.T, st *WorkerStats, prop string, v Violation, sc *Scenario, res *Result, verifSeed, idx int64, dir string) ReportedViol {
	m := &minimiser{t: t, prop: prop, sig: v.Sig, sc: sc, tape: res.Tape, sel: res.Selects, deadline: time.Now().Add(time.Duration(envInt("VERIF_MINIMISE_S", 20)) * time.Second)}
	// first confirm the recorded tape reproduces at all
	if r0 := m.try(sc, res.Tape, res.Selects); r0 == nil {
		st.ToolTrouble = append(st.ToolTrouble, fmt.Sprintf("run %d: violation %s did not reproduce from its own tape", idx, v.Sig))
	} else {
		m.run()
	}
	st.MinimiseRuns += m.runs
	// final: record the exact tape of the minimal case and confirm strictly
	final := RunScenario(t, m.sc, &simrt.Replay{Tape: m.tape, Sel: m.sel, Strict: false}, true)
	fv := hasSig(final, prop, v.Sig)
	if fv == nil {
		// fall back to the original
		m.sc, final = sc, RunScenario(t, sc, &simrt.Replay{Tape: res.Tape, Sel: res.Selects, Strict: false}, true)
		fv = hasSig(final, prop, v.Sig)
	}
	msg := v.Msg
	if fv != nil {
		msg = fv.Msg
	}
	strict := RunScenario(t, m.sc, &simrt.Replay{Tape: final.Tape, Sel: final.Selects, Strict: true}, true)
	if strict.Diverged != "" || hasSig(strict, prop, v.Sig) == nil || strict.TraceHash != final.TraceHash || strict.EventHash != final.EventHash {
		st.ToolTrouble = append(st.ToolTrouble, fmt.Sprintf("run %d: strict replay of %s does not reproduce (diverged=%q)", idx, v.Sig, strict.Diverged))
	}
	rf := &ReplayFile{Property: prop, Signature: v.Sig, Message: msg, VerifSeed: verifSeed, RunIndex: idx, Scenario: m.sc,
		Tape: final.Tape, Selects: final.Selects, TraceHash: final.TraceHash, EventHash: final.EventHash, Steps: final.Steps,
		Minimised: fmt.Sprintf("%d candidate runs; %d->%d turns, %d->%d pre-emptions; steps: %s", m.runs, len(res.Tape), len(final.Tape), preemptions(res.Tape), preemptions(final.Tape), strings.Join(compactLog(m.log), ",")),
		History:   excerpt(final.Evs, "", 60)}
	path := ""
	if dir != "" {
		path = fmt.Sprintf("%s/%s-%s-%d-%d.json", dir, prop, slug(v.Sig), verifSeed, idx)
		os.WriteFile(path, rf.JSON(), 0o644)
	}
	return ReportedViol{Sig: v.Sig, Msg: msg, Replay: path, Seed: idx, OrigTrace: res.TraceHash, OrigEvents: res.EventHash, OrigMsg: v.Msg}
}

func compactLog(l []string) []string {
	c := map[string]int{}
	var order []string
	for _, x := range l {
		if c[x] == 0 {
			order = append(order, x)
		}
		c[x]++
	}
	var out []string
	for _, x := range order {
		out = append(out, fmt.Sprintf("%s×%d", x, c[x]))
	}
	return out
}

// replayFile re-executes a replay file strictly; exit code 1 if the violation reproduces,
// 0 if it does not, 2 if the replay diverged.
func replayFile(t *testing.T, prop, path string) {
	b, err := os.ReadFile(path)
	if err != nil {
		fmt.Println("TOOL-TROUBLE cannot read replay:", err)
		os.Exit(2)
	}
	var rf ReplayFile
	if err := json.Unmarshal(b, &rf); err != nil {
		fmt.Println("TOOL-TROUBLE cannot parse replay:", err)
		os.Exit(2)
	}
	if rf.Sequence != nil {
		// re-execute the worker's sequence of runs up to the reported one; the verdict is that run's
		gens := generators[prop]
		var last *Result
		for k := int64(0); ; k++ {
			idx := int64(rf.Sequence.Worker) + k*int64(rf.Sequence.NWorkers)
			if idx > rf.RunIndex {
				break
			}
			seed := runSeed(rf.VerifSeed, idx)
			gen := gens[int(idx/int64(rf.Sequence.NWorkers))%len(gens)]
			if len(gens) > 1 {
				gen = gens[int(splitmix64(seed)%uint64(len(gens)))]
			}
			genRunIndex = idx
			sc := gen(prop, seed, rf.Sequence.Tier == "thorough")
			last = RunScenario(t, sc, simrt.NewPolicy(sc.Policy), true)
		}
		v := hasSig(last, rf.Property, rf.Signature)
		out := map[string]any{"reproduced": v != nil, "identical_trace": v != nil && last.TraceHash == rf.TraceHash && last.EventHash == rf.EventHash, "diverged": "", "signature": rf.Signature, "outcome": last.Outcome, "sequence": true}
		if v != nil {
			out["message"] = v.Msg
		}
		jb, _ := json.Marshal(out)
		fmt.Println("REPLAY-RESULT " + string(jb))
		if v != nil {
			fmt.Printf("VIOLATION property=%s replay=%s\n", rf.Property, path)
			os.Exit(1)
		}
		return
	}
	if rf.Spin {
		// no tape exists for a run that never ended: re-run it under its own policy with the watchdog armed
		startWatchdog(prop, "")
		curRun.Store(&runInfo{start: time.Now(), sc: rf.Scenario, idx: rf.RunIndex, seed: rf.VerifSeed})
		RunScenario(t, rf.Scenario, simrt.NewPolicy(rf.Scenario.Policy), false)
		curRun.Store(nil)
		fmt.Println(`REPLAY-RESULT {"reproduced":false,"identical_trace":false,"diverged":"","signature":"work-in-proportion/spin","outcome":"finished"}`)
		return
	}
	// VERIF_SEARCH=n (debugging aid, never used by the checks): run the file's scenario under n fresh schedules of
	// its own policy kind and count how often the signature shows - for telling, after the code has changed, whether
	// the behaviour behind an old replay file is still reachable
	if n := envInt("VERIF_SEARCH", 0); n > 0 {
		hits, first := 0, int64(-1)
		for k := int64(0); k < n; k++ {
			ps := rf.Scenario.Policy
			ps.Seed = splitmix64(ps.Seed + uint64(k)*0x9e3779b97f4a7c15)
			res := RunScenario(t, rf.Scenario, simrt.NewPolicy(ps), true)
			if v := hasSig(res, rf.Property, rf.Signature); v != nil {
				hits++
				if first < 0 {
					first = k
					fmt.Println("SEARCH first hit:", v.Msg)
					if os.Getenv("VERIF_DUMP") != "" {
						for _, l := range excerpt(res.Evs, "", 100000) {
							fmt.Println(l)
						}
					}
				}
			}
		}
		fmt.Printf("SEARCH-RESULT schedules=%d hits=%d first=%d signature=%s\n", n, hits, first, rf.Signature)
		return
	}
	// VERIF_LENIENT=1 (debugging aid, never used by the checks): follow the tape as far as it fits and
	// continue under the default policy - for looking at an old replay file after the code has changed
	res := RunScenario(t, rf.Scenario, &simrt.Replay{Tape: rf.Tape, Sel: rf.Selects, Strict: os.Getenv("VERIF_LENIENT") == ""}, true)
	if os.Getenv("VERIF_DUMP") != "" {
		for _, l := range excerpt(res.Evs, "", 100000) {
			fmt.Println(l)
		}
		fmt.Println("alive:", res.Alive)
		for _, v := range res.Viol {
			fmt.Printf("viol %s %s: %s\n", v.Prop, v.Sig, v.Msg)
		}
	}
	v := hasSig(res, rf.Property, rf.Signature)
	same := res.TraceHash == rf.TraceHash && res.EventHash == rf.EventHash
	out := map[string]any{"reproduced": v != nil, "identical_trace": same, "diverged": res.Diverged, "signature": rf.Signature, "outcome": res.Outcome}
	if v != nil {
		out["message"] = v.Msg
	}
	jb, _ := json.Marshal(out)
	fmt.Println("REPLAY-RESULT " + string(jb))
	if v != nil {
		fmt.Printf("VIOLATION property=%s replay=%s\n", rf.Property, path)
		os.Exit(1)
	}
	if res.Diverged != "" {
		os.Exit(2)
	}
}

// TestOne runs a single generated scenario and dumps it (debugging aid).
func TestOne(t *testing.T) {
	prop := os.Getenv("VERIF_PROP")
	if prop == "" || os.Getenv("VERIF_ONE") == "" {
		t.Skip()
	}
	idx := envInt("VERIF_ONE", 0)
	seed := runSeed(envInt("VERIF_SEED", 1), idx)
	gens := generators[prop]
	gen := gens[0]
	if len(gens) > 1 {
		gen = gens[int(splitmix64(seed)%uint64(len(gens)))]
	}
	genRunIndex = idx
	sc := gen(prop, seed, os.Getenv("VERIF_TIER") == "thorough")
	b, _ := json.Marshal(sc)
	fmt.Println(string(b))
	res := RunScenario(t, sc, simrt.NewPolicy(sc.Policy), true)
	for _, l := range excerpt(res.Evs, "", 100000) {
		fmt.Println(l)
	}
	fmt.Printf("outcome=%s steps=%d yields=%d preempts=%d virtual=%dms trace=%x events=%x\n", res.Outcome, res.Steps, res.Yields, res.Preempts, res.VirtualMs, res.TraceHash, res.EventHash)
	fmt.Println("alive:", res.Alive)
	fmt.Println("faults:", res.Faults, "probes:", res.Probes)
	for _, f := range res.Fail {
		fmt.Printf("FAIL %s %s: %s\n%s\n", f.Kind, f.Task, f.Msg, trimStack(f.Stack))
	}
	for _, v := range res.Viol {
		fmt.Printf("viol %s %s: %s\n", v.Prop, v.Sig, v.Msg)
	}
}

// TestDeterminism prints one line per run: index, trace hash, event hash (self-test input).
func TestDeterminism(t *testing.T) {
	prop := os.Getenv("VERIF_PROP")
	if prop == "" || os.Getenv("VERIF_DET") == "" {
		t.Skip()
	}
	n := envInt("VERIF_DET", 100)
	verifSeed := envInt("VERIF_SEED", 1)
	gens := generators[prop]
	w := bufio.NewWriter(os.Stdout)
	defer w.Flush()
	for idx := int64(0); idx < n; idx++ {
		seed := runSeed(verifSeed, idx)
		gen := gens[0]
		if len(gens) > 1 {
			gen = gens[int(splitmix64(seed)%uint64(len(gens)))]
		}
		genRunIndex = idx
		sc := gen(prop, seed, false)
		res := RunScenario(t, sc, simrt.NewPolicy(sc.Policy), false)
		nv := 0
		for _, v := range res.Viol {
			if v.Prop == prop {
				nv++
			}
		}
		fmt.Fprintf(w, "DET %d %x %x %d %d %s %d\n", idx, res.TraceHash, res.EventHash, res.Steps, res.Yields, res.Outcome, nv)
	}
}

// TestSurvey prints a histogram of all oracle signatures over N runs (triage aid).
func TestSurvey(t *testing.T) {
	prop := os.Getenv("VERIF_PROP")
	if prop == "" || os.Getenv("VERIF_SURVEY") == "" {
		t.Skip()
	}
	n := envInt("VERIF_SURVEY", 1000)
	off := envInt("VERIF_OFFSET", 0)
	verifSeed := envInt("VERIF_SEED", 1)
	gens := generators[prop]
	cnt := map[string]int{}
	first := map[string]int64{}
	outcomes := map[string]int{}
	for idx := off; idx < off+n; idx++ {
		seed := runSeed(verifSeed, idx)
		gen := gens[0]
		if len(gens) > 1 {
			gen = gens[int(splitmix64(seed)%uint64(len(gens)))]
		}
		genRunIndex = idx
		sc := gen(prop, seed, os.Getenv("VERIF_TIER") == "thorough")
		res := RunScenario(t, sc, simrt.NewPolicy(sc.Policy), false)
		outcomes[res.Outcome]++
		seen := map[string]bool{}
		for _, v := range res.Viol {
			k := v.Prop + " " + v.Sig
			if seen[k] {
				continue
			}
			seen[k] = true
			if cnt[k] == 0 {
				first[k] = idx
			}
			cnt[k]++
		}
		if os.Getenv("VERIF_SURVEY_PROBES") != "" {
			for k := range res.Probes {
				k = "probe " + k
				if cnt[k] == 0 {
					first[k] = idx
				}
				cnt[k]++
			}
		}
		if res.Leftover {
			cnt["~ bubble-leftover"]++
			if first["~ bubble-leftover"] == 0 {
				first["~ bubble-leftover"] = idx
			}
		}
	}
	keys := sortedKeys(cnt)
	for _, k := range keys {
		fmt.Printf("SURVEY %-70s %6d  first=%d\n", k, cnt[k], first[k])
	}
	fmt.Println("outcomes", outcomes)
}

// globMatch: '*' in the pattern matches any run of characters.
func globMatch(pat, s string) bool {
	if !strings.Contains(pat, "*") {
		return pat == s
	}
	parts := strings.Split(pat, "*")
	if !strings.HasPrefix(s, parts[0]) {
		return false
	}
	s = s[len(parts[0]):]
	for i := 1; i < len(parts)-1; i++ {
		j := strings.Index(s, parts[i])
		if j < 0 {
			return false
		}
		s = s[j+len(parts[i]):]
	}
	return strings.HasSuffix(s, parts[len(parts)-1])
}
