package sim

// The only network the server sees: recording http.ResponseWriter, seeded
// request bodies, and an in-memory duplex byte stream whose reads park under
// the scheduler.  Faults (abort, reset, EOF, write error, fragmentation,
// latency) are injected here and counted when they actually fire.

import (
	"bufio"
	"bytes"
	"context"
	"errors"
	"io"
	"net"
	"net/http"
	"net/url"
	"os"
	"sync"
	"time"

	"github.com/zishang520/engine.io/v2/simrt"
)

// ---- byte stream -----------------------------------------------------------

// half is one direction of an in-memory connection.
type half struct {
	mu       sync.Mutex
	buf      []byte
	closed   bool  // writer closed: reader gets EOF after draining
	rerr     error // reader-side error (reset): returned immediately, data dropped
	werr     error // writer-side error
	frag     []int // read fragmentation pattern (cyclic); empty = whatever fits
	fragI    int
	total    int64 // bytes ever written
	consumed int64 // bytes ever read
	failAt   int64 // inject rerr once consumed reaches failAt (<0: never)
	failErr  error
	failOnce bool // the injected error is transient: reported once, then the stream goes on
	// a stream may hand out its last bytes together with io.EOF (QUIC does when the FIN arrives with the data)
	eofWithData bool
	// writer-side fault: the write that would take the total past wfailAt-1 bytes accepts only the bytes up to
	// there and returns wfailErr (0: never); transient (wfailOnce: the stream goes on afterwards) or permanent
	wfailAt   int64
	wfailErr  error
	wfailOnce bool
	// back-pressure: with a capacity set, a write blocks while that many bytes are unread - a peer that has stopped
	// reading (its receive window is full) stalls the server's writer goroutine for as long as it likes
	capacity    int
	stalledOnce bool
	wake        chan struct{} // closed+replaced on every change, for unmanaged readers
	onFault     func(kind string)
}

func newHalf() *half { return &half{failAt: -1, wake: make(chan struct{})} }

func (h *half) signal() {
	close(h.wake)
	h.wake = make(chan struct{})
}

func (h *half) hasRoom() bool {
	h.mu.Lock()
	defer h.mu.Unlock()
	return h.capacity <= 0 || len(h.buf) < h.capacity || h.werr != nil || h.closed
}

func (h *half) write(b []byte) (int, error) {
	h.mu.Lock()
	defer h.mu.Unlock()
	for h.capacity > 0 && len(h.buf) >= h.capacity && h.werr == nil && !h.closed {
		if h.onFault != nil && !h.stalledOnce {
			h.stalledOnce = true
			h.onFault("writer-stalled-by-back-pressure")
		}
		wake := h.wake
		h.mu.Unlock()
		if simrt.IsTask() {
			simrt.Block(h.hasRoom)
		} else {
			<-wake
		}
		h.mu.Lock()
	}
	if h.werr != nil {
		return 0, h.werr
	}
	if h.closed {
		return 0, net.ErrClosed
	}
	if h.wfailAt > 0 && h.total+int64(len(b)) >= h.wfailAt {
		n := int(h.wfailAt - 1 - h.total)
		if n < 0 {
			n = 0
		}
		h.buf = append(h.buf, b[:n]...)
		h.total += int64(n)
		err := h.wfailErr
		h.wfailAt = 0
		if !h.wfailOnce {
			h.werr = err
		}
		if h.onFault != nil {
			h.onFault("stream-write-error-at-offset")
		}
		h.signal()
		return n, err
	}
	h.buf = append(h.buf, b...)
	h.total += int64(len(b))
	h.signal()
	return len(b), nil
}

func (h *half) readable() bool {
	h.mu.Lock()
	defer h.mu.Unlock()
	return len(h.buf) > 0 || h.closed || h.rerr != nil || (h.failAt >= 0 && h.consumed >= h.failAt)
}

func (h *half) read(b []byte) (int, error) {
	for {
		h.mu.Lock()
		if h.failAt >= 0 && h.consumed >= h.failAt && h.rerr == nil {
			h.rerr = h.failErr
			if h.onFault != nil {
				h.onFault("stream-error-at-offset")
			}
		}
		if h.rerr != nil {
			err := h.rerr
			if h.failOnce && h.failAt >= 0 {
				h.rerr, h.failAt = nil, -1
			}
			h.mu.Unlock()
			return 0, err
		}
		if len(h.buf) > 0 && len(b) > 0 {
			n := len(b)
			if n > len(h.buf) {
				n = len(h.buf)
			}
			if len(h.frag) > 0 {
				f := h.frag[h.fragI%len(h.frag)]
				h.fragI++
				if f > 0 && f < n {
					n = f
				}
			}
			if h.failAt >= 0 && h.consumed+int64(n) > h.failAt {
				n = int(h.failAt - h.consumed)
			}
			copy(b, h.buf[:n])
			h.buf = h.buf[n:]
			h.consumed += int64(n)
			if h.capacity > 0 {
				h.signal() // room for a stalled writer
			}
			if h.eofWithData && h.closed && len(h.buf) == 0 {
				h.mu.Unlock()
				return n, io.EOF
			}
			h.mu.Unlock()
			return n, nil
		}
		if len(b) == 0 {
			h.mu.Unlock()
			return 0, nil
		}
		if h.closed {
			h.mu.Unlock()
			return 0, io.EOF
		}
		wake := h.wake
		h.mu.Unlock()
		if simrt.IsTask() {
			simrt.Block(h.readable)
		} else {
			<-wake
		}
	}
}

func (h *half) closeWrite() {
	h.mu.Lock()
	h.closed = true
	h.signal()
	h.mu.Unlock()
}

func (h *half) fail(rerr, werr error) {
	h.mu.Lock()
	if rerr != nil {
		h.rerr = rerr
		h.buf = nil
	}
	if werr != nil {
		h.werr = werr
	}
	h.signal()
	h.mu.Unlock()
}

type simAddr string

func (a simAddr) Network() string { return "sim" }
func (a simAddr) String() string  { return string(a) }

// connEnd is one end of an in-memory net.Conn.
type connEnd struct {
	in, out           *half
	local, remote     simAddr
	closeOnce         sync.Once
	preemptibleWrites bool          // server end of a WebSocket connection
	writeDelay        time.Duration // server end: every write call takes that long (slow link)
	closedAt          time.Duration // virtual instant at which this end was closed by its owner
	isClosed          bool
}

func (e *connEnd) Read(b []byte) (int, error) {
	n, err := e.in.read(b)
	return n, err
}
func (e *connEnd) Write(b []byte) (int, error) {
	if e.writeDelay > 0 && simrt.IsTask() {
		// a slow link: the write call takes its time, the writer sits in it meanwhile
		simrt.Sleep(e.writeDelay)
	}
	n, err := e.out.write(b)
	// a write to a connection is a system call: the writer can be pre-empted in it (whoever else writes to the same
	// connection meanwhile finds it in the middle of a write)
	if e.preemptibleWrites && simrt.IsTask() {
		simrt.Yield(-5)
	}
	return n, err
}
func (e *connEnd) Close() error {
	e.closeOnce.Do(func() {
		e.closedAt, e.isClosed = simrt.Now(), true
		e.out.closeWrite()
		e.in.fail(net.ErrClosed, nil)
		e.out.fail(nil, net.ErrClosed)
	})
	return nil
}
func (e *connEnd) LocalAddr() net.Addr              { return e.local }
func (e *connEnd) RemoteAddr() net.Addr             { return e.remote }
func (e *connEnd) SetDeadline(time.Time) error      { return nil }
func (e *connEnd) SetReadDeadline(time.Time) error  { return nil }
func (e *connEnd) SetWriteDeadline(time.Time) error { return nil }

var errReset = &net.OpError{Op: "read", Net: "sim", Err: errors.New("connection reset by peer")}
var errBrokenPipe = &net.OpError{Op: "write", Net: "sim", Err: errors.New("broken pipe")}
var errTimeout = os.ErrDeadlineExceeded

// pipe returns (server end, client end).
func pipe(clientAddr string) (*connEnd, *connEnd) {
	a, b := newHalf(), newHalf() // a: client->server, b: server->client
	srv := &connEnd{in: a, out: b, local: "10.0.0.1:80", remote: simAddr(clientAddr)}
	cli := &connEnd{in: b, out: a, local: simAddr(clientAddr), remote: "10.0.0.1:80"}
	return srv, cli
}

// reset models a TCP reset seen by the server side.
func (e *connEnd) resetPeer() {
	// called on the client end: server reads fail, server writes fail
	e.out.fail(errReset, nil)
	e.in.fail(nil, errBrokenPipe)
}

// ---- HTTP --------------------------------------------------------------------

// Resp records everything the server did to one response.
type Resp struct {
	ID       int
	Client   string
	Method   string
	URL      string
	Status   int
	H        http.Header
	Body     []byte
	NWH      int // WriteHeader calls
	NW       int // Write calls
	NFlush   int
	Hijacked bool
	Returned bool // handler returned
	Aborted  bool // client aborted
	// WindUp: abandoned by the harness when the run was wound up (every client vanishes), not by the client's script
	WindUp   bool
	ByApp    bool // served by the application's default handler
	T0, T1   time.Duration
	SeqWH    int // event seq at first WriteHeader
	SeqRet   int
	BodyRead int64 // bytes the server pulled from the request body
	BodySize int64 // bytes the client was going to send
	NoCL     bool  // no Content-Length announced
	conn     net.Conn
	h3       any
	cancel   context.CancelFunc
	w        *World
}

type respWriter struct {
	r *Resp
	h http.Header
}

func (w *respWriter) Header() http.Header { return w.h }
func (w *respWriter) WriteHeader(s int) {
	r := w.r
	r.NWH++
	if r.NWH == 1 {
		r.Status = s
		r.H = w.h.Clone()
		r.SeqWH = r.w.rec(r.Client, "http-wh", r.URL, int64(s))
	}
}
func (w *respWriter) Write(b []byte) (int, error) {
	r := w.r
	if r.NWH == 0 {
		w.WriteHeader(200)
	}
	r.NW++
	r.Body = append(r.Body, b...)
	return len(b), nil
}
func (w *respWriter) Flush() { w.r.NFlush++ }

type hijackWriter struct{ respWriter }

func (w *hijackWriter) Hijack() (net.Conn, *bufio.ReadWriter, error) {
	w.r.Hijacked = true
	c := w.r.conn
	return c, bufio.NewReadWriter(bufio.NewReader(c), bufio.NewWriter(c)), nil
}

// countingBody counts what the server pulls from a request body.
type countingBody struct {
	r     io.Reader
	n     *int64
	chunk int
}

func (c *countingBody) Read(b []byte) (int, error) {
	if c.chunk > 0 && len(b) > c.chunk {
		b = b[:c.chunk]
	}
	n, err := c.r.Read(b)
	*c.n += int64(n)
	return n, err
}
func (c *countingBody) Close() error { return nil }

// zeroReader yields n bytes of a repeating pattern without allocating them.
type patReader struct {
	pat  []byte
	left int64
	off  int
}

func (z *patReader) Read(b []byte) (int, error) {
	if z.left <= 0 {
		return 0, io.EOF
	}
	n := len(b)
	if int64(n) > z.left {
		n = int(z.left)
	}
	for i := 0; i < n; i++ {
		b[i] = z.pat[z.off%len(z.pat)]
		z.off++
	}
	z.left -= int64(n)
	return n, nil
}

// ReqSpec describes one HTTP request.
type ReqSpec struct {
	Method  string
	Path    string // e.g. /engine.io/
	Query   string // raw query
	Hdr     map[string]string
	Body    []byte
	BodyGen int64 // if >0: generated body of that many bytes (pattern) instead of Body
	NoCL    bool  // unknown Content-Length (-1), as with chunked encoding
	Proto   string
	Conn    net.Conn // for hijack (websocket)
	H3      any      // for webtransport
	Chunk   int      // body read chunking
	// BodyErrAt > 0: reading the body fails (a malformed chunk header, a limiting wrapper in a middleware) once that
	// many bytes minus one were handed out - the connection itself stays, the request context is not cancelled
	BodyErrAt int64
}

// newRequest builds the *http.Request the way net/http would hand it over.
func (w *World) newRequest(client string, rs ReqSpec) (*http.Request, *Resp) {
	ctx, cancel := context.WithCancel(context.Background())
	w.reqSeq++
	r := &Resp{ID: w.reqSeq, Client: client, Method: rs.Method, cancel: cancel, w: w, conn: rs.Conn, h3: rs.H3}
	u := &url.URL{Scheme: "http", Host: "sim.test", Path: rs.Path, RawQuery: rs.Query}
	r.URL = u.RequestURI()
	req := &http.Request{
		Method: rs.Method, URL: u, Proto: "HTTP/1.1", ProtoMajor: 1, ProtoMinor: 1,
		Header: http.Header{}, Host: "sim.test", RequestURI: u.RequestURI(),
		RemoteAddr: w.clientAddr(client),
	}
	if rs.Proto != "" {
		req.Proto = rs.Proto
	}
	for k, v := range rs.Hdr {
		req.Header[http.CanonicalHeaderKey(k)] = []string{v}
	}
	var body io.Reader
	n := int64(len(rs.Body))
	if rs.BodyGen > 0 {
		body = &patReader{pat: []byte("4abcdefghijklmnopqrstuvwxyz0123456789"), left: rs.BodyGen}
		n = rs.BodyGen
	} else if rs.Body != nil {
		body = bytes.NewReader(rs.Body)
	}
	r.BodySize, r.NoCL = n, rs.NoCL
	if body != nil {
		if rs.BodyErrAt > 0 {
			body = &failingReader{r: body, left: rs.BodyErrAt - 1}
			w.fault("request-body-read-error")
		}
		req.Body = &countingBody{r: body, n: &r.BodyRead, chunk: rs.Chunk}
		req.ContentLength = n
		if rs.NoCL {
			req.ContentLength = -1
			req.TransferEncoding = []string{"chunked"}
		}
	} else {
		req.Body = http.NoBody
	}
	return req.WithContext(ctx), r
}

// serve runs handler for the request in the calling task, like a net/http
// connection goroutine: the request context is cancelled when the handler
// returns.
func (w *World) serve(h http.Handler, client string, rs ReqSpec) *Resp {
	req, r := w.newRequest(client, rs)
	return w.serveReq(h, req, r)
}

func (w *World) serveReq(h http.Handler, req *http.Request, r *Resp) *Resp {
	r.T0 = simrt.Now()
	w.rec(r.Client, "http-req", r.Method+" "+r.URL, int64(r.ID))
	w.resps = append(w.resps, r)
	base := respWriter{r: r, h: http.Header{}}
	var rw http.ResponseWriter = &base
	if r.conn != nil {
		rw = &hijackWriter{base}
	} else if r.h3 != nil {
		rw = w.h3Writer(&base, r)
	}
	func() {
		defer r.cancel() // net/http cancels the context when the handler returns
		h.ServeHTTP(rw, req)
	}()
	simrt.Yield(-5)
	r.Returned = true
	r.T1 = simrt.Now()
	r.SeqRet = w.rec(r.Client, "http-ret", r.URL, int64(r.Status))
	return r
}

// abort models the client going away while the request is pending.
func (r *Resp) abort() {
	if !r.Returned {
		r.Aborted = true
		r.w.fault("abort-request")
		r.cancel()
		simrt.Settle()
	}
}

// failingReader yields left bytes of r and then an error that is not the end of the body.
type failingReader struct {
	r    io.Reader
	left int64
}

func (f *failingReader) Read(b []byte) (int, error) {
	if f.left <= 0 {
		return 0, errors.New("invalid byte in chunk length")
	}
	if int64(len(b)) > f.left {
		b = b[:f.left]
	}
	n, err := f.r.Read(b)
	f.left -= int64(n)
	if err == io.EOF && f.left > 0 {
		return n, errors.New("unexpected EOF in chunked body")
	}
	return n, err
}
