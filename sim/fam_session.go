package sim

import (
	"fmt"
	"regexp"
	"sort"
	"strings"
	"time"

	"github.com/zishang520/engine.io/v2/simrt"
)

// sessionFam runs whole Engine.IO sessions: real server, simulated clients,
// application and network.
type sessionFam struct {
	sc              *Scenario
	clients         map[string]*Client
	endAt           time.Duration
	grace           time.Duration
	ended           bool
	drained         bool
	shutdownSeen    bool
	snap            map[string]string // alias -> state at end of the scripted part
	aliveAfterDrain []string
	outlived        map[string]bool
}

func init() {
	families["session"] = func(sc *Scenario) family {
		return &sessionFam{sc: sc, clients: map[string]*Client{}, snap: map[string]string{}}
	}
}

// graceFor is the time after which everything belonging to a vanished client
// must be gone: close timeout, heartbeat deadline, upgrade timeout.
func graceFor(o *OptSpec) time.Duration {
	pi, pt, ut := o.PingIntervalMs, o.PingTimeoutMs, o.UpgradeTimeoutMs
	if pi == 0 {
		pi = 25000
	}
	if pt == 0 {
		pt = 20000
	}
	if ut == 0 {
		ut = 10000
	}
	// a vanished client is noticed at the latest by the heartbeat (two periods to be
	// safe), a polling transport then may wait its 30 s close timeout, a candidate its upgrade timeout
	g := 2*(pi+pt) + 30000 + ut
	return time.Duration(g+1000) * time.Millisecond
}

func (f *sessionFam) horizon() time.Duration {
	return time.Duration(f.sc.HorizonMs)*time.Millisecond + graceFor(&f.sc.Opts) + 10*time.Second
}

func (f *sessionFam) setup(w *World) {
	sc := f.sc
	w.startServer(&sc.Opts, sc.Attach)
	f.grace = graceFor(&sc.Opts)
	f.endAt = time.Duration(sc.HorizonMs) * time.Millisecond
	// the simulator's own horizon is later: scripted part + drain
	for i := range sc.Clients {
		sp := &sc.Clients[i]
		c := &Client{w: w, sp: sp, name: sp.Name}
		f.clients[sp.Name] = c
		w.clientAddr(sp.Name)
	}
	for i := range sc.Clients {
		c := f.clients[sc.Clients[i].Name]
		simrt.GoActor(c.name, c.run)
	}
	w.runApp(sc.App)
	simrt.GoActor("z-end", func() { f.endPhase(w) })
}

// endPhase: snapshot, dead-sid probes, then every client goes away and the
// drain period must leave nothing behind.
func (f *sessionFam) endPhase(w *World) {
	simrt.Sleep(f.endAt)
	f.ended = true
	for _, a := range sortedKeys(w.Socks) {
		s := w.Socks[a]
		st := sockState(s)
		f.snap[a] = st
		w.recx(Ev{Sess: a, Kind: "end-snapshot", S: st})
	}
	// a request naming a closed session must be answered "Session ID unknown"
	closed := map[string]bool{}
	for _, e := range w.Evs {
		if e.Kind == "close" {
			closed[e.Sess] = true
		}
	}
	for _, a := range sortedKeys(closed) {
		sid := w.SockIDs[a]
		r := w.serve(w.H, "prober", ReqSpec{Method: "GET", Path: f.path(), Query: "EIO=4&transport=polling&sid=" + sid})
		w.recx(Ev{Sess: a, Kind: "dead-sid-probe", S: string(r.Body), N: int64(r.Status)})
		if f.wsEnabled() {
			// the same for a request that asks to upgrade to WebSocket: refused before anything is accepted
			r := w.serve(w.H, "prober", ReqSpec{Method: "GET", Path: f.path(), Query: "EIO=4&transport=websocket&sid=" + sid,
				Hdr: map[string]string{"Connection": "Upgrade", "Upgrade": "websocket", "Sec-WebSocket-Version": "13", "Sec-WebSocket-Key": "dGhlIHNhbXBsZSBub25jZQ=="}})
			w.recx(Ev{Sess: a, Kind: "dead-sid-probe", S: string(r.Body), N: int64(r.Status), P: []string{"websocket-upgrade"}})
		}
	}
	w.rec("", "drain-start", "", 0)
	// every client vanishes
	for _, n := range sortedKeys(f.clients) {
		c := f.clients[n]
		c.stopped = true
		c.closed = true
		for _, r := range w.resps {
			if r.Client == n && !r.Returned {
				r.Aborted = true
				r.WindUp = true
				r.cancel()
			}
		}
		if c.stream != nil {
			c.stream.close()
		}
		if c.cand != nil && c.cand != c.stream {
			c.cand.close()
		}
		for _, s := range c.rawConns {
			s.close()
		}
	}
	w.closeWT()
	simrt.Settle()
	simrt.Sleep(f.grace)
	f.drained = true
	w.rec("", "drain-end", "", 0)
	f.aliveAfterDrain = w.S.AliveTasks()
	keys := w.Srv.Clients().Keys()
	sort.Strings(keys)
	w.recx(Ev{Kind: "final-registry", N: int64(w.Srv.ClientsCount()), P: keys})
	w.S.StopFlag.Store(true)
}

func (f *sessionFam) path() string {
	for _, c := range f.sc.Clients {
		if c.Path != "" {
			return c.Path
		}
	}
	return "/engine.io/"
}

var sidRe = regexp.MustCompile(`^[A-Za-z0-9_-]+$`)

// quiescent runs as a task whenever nothing can run at the current instant.
func (f *sessionFam) quiescent(w *World) {
	if w.Srv == nil {
		return
	}
	// C04: registry == live sessions
	live := map[string]bool{}
	aliasOfSid := map[string]string{}
	for _, e := range w.Evs {
		switch e.Kind {
		case "connection":
			live[e.S] = true
			aliasOfSid[e.S] = e.Sess
		case "close":
			delete(live, w.SockIDs[e.Sess])
		}
	}
	keys := w.Srv.Clients().Keys()
	cnt := w.Srv.ClientsCount()
	reg := map[string]bool{}
	for _, k := range keys {
		reg[k] = true
	}
	for k := range live {
		// a session whose state is closed has closed, whether or not the application was told (that is C03's business)
		if s := w.Socks[aliasOfSid[k]]; s != nil && s.ReadyState() == "closed" {
			continue
		}
		if !reg[k] {
			w.violate("C04", "live-session-registered", "", fmt.Sprintf("at quiescence t=%v live session %s (%s) is not in Clients()", simrt.Now(), k, aliasOfSid[k]))
		} else if s, ok := w.Srv.Clients().Load(k); !ok || s.Id() != k {
			w.violate("C04", "live-session-loadable", "", fmt.Sprintf("session %s not loadable under its own id", k))
		}
	}
	for _, k := range keys {
		if !live[k] {
			// a session that exists but was never announced (handshake not finished) is
			// not "created" yet from the application's view; only flag sessions that closed
			// or that sit here while their socket is already closed
			if s, ok := w.Srv.Clients().Load(k); ok && s.ReadyState() == "closed" {
				w.violate("C04", "closed-session-unreachable", "", fmt.Sprintf("at quiescence t=%v Clients() still holds closed session %s", simrt.Now(), k))
			}
		}
	}
	if cnt != uint64(len(keys)) {
		sig := ""
		if cnt > 1<<62 {
			sig = "underflow"
		}
		w.violate("C04", "count-equals-table", sig, fmt.Sprintf("at quiescence t=%v ClientsCount()=%d but Clients() has %d keys", simrt.Now(), cnt, len(keys)))
	}
	// C03: a session does not outlive its transport: when the connection under a session has ended (peer closed
	// it, it failed, the server tore it down) the session stops being open there and then - at a quiescent point
	// no session that is still open or closing sits on a transport that is closed
	// (not with stalled tasks: a handler that lost time between tearing down the old transport and installing
	// the new one is in the middle of the switch at this "quiescent" point)
	for _, a := range sortedKeys(w.Socks) {
		if f.sc.Policy.StallP > 0 {
			break
		}
		s := w.Socks[a]
		if st := s.ReadyState(); st != "open" && st != "closing" {
			continue
		}
		if t := s.Transport(); t != nil && t.ReadyState() == "closed" && !f.outlived[a] {
			if f.outlived == nil {
				f.outlived = map[string]bool{}
			}
			f.outlived[a] = true
			w.violate("C03", "session-outlives-transport", s.ReadyState()+"/"+t.Name(), fmt.Sprintf("at quiescence t=%v session %s is %s but its %s transport is closed", simrt.Now(), a, s.ReadyState(), t.Name()))
		}
	}
	// C12: the first quiescent point after a shutdown returned: table empty?
	if !f.shutdownSeen {
		for _, e := range w.Evs {
			if e.Kind == "app-server-close-ret" || e.Kind == "app-http-close-ret" {
				f.shutdownSeen = true
				k := append([]string(nil), keys...)
				sort.Strings(k)
				w.recx(Ev{Kind: "registry-after-shutdown", N: int64(cnt), P: k})
				break
			}
		}
	}
	// C11: at most one poll and one data request outstanding per session
	pend := map[string][2]int{}
	for _, r := range w.resps {
		if r.Returned || r.Hijacked || r.h3 != nil || r.NWH > 0 {
			continue
		}
		if sid, ok := pollingReq(r); ok && sid != "" {
			p := pend[sid]
			if r.Method == "GET" {
				p[0]++
			} else if r.Method == "POST" {
				p[1]++
			}
			pend[sid] = p
		}
	}
	for sid, p := range pend {
		if p[0] > 1 || p[1] > 1 {
			kind := "poll"
			if p[1] > 1 {
				kind = "data"
			}
			w.violate("C11", "one-outstanding-request", kind, fmt.Sprintf("at quiescence t=%v session %s has %d poll and %d data requests outstanding", simrt.Now(), aliasOfSid[sid], p[0], p[1]))
		}
	}
	// abstract state for the evidence
	var st []string
	for _, a := range sortedKeys(w.Socks) {
		s := w.Socks[a]
		c := f.clients[a]
		x := sockState(s)
		if t := s.Transport(); t != nil && t.Writable() {
			x += "/w"
		}
		if c != nil {
			if c.polling {
				x += "/poll"
			}
			if c.posting {
				x += "/post"
			}
		}
		st = append(st, x)
	}
	sort.Strings(st)
	w.mu.Lock()
	w.States[strings.Join(st, " ")] = true
	w.mu.Unlock()
}

func (f *sessionFam) wsEnabled() bool {
	if len(f.sc.Opts.Transports) == 0 {
		return true
	}
	for _, t := range f.sc.Opts.Transports {
		if t == "websocket" {
			return true
		}
	}
	return false
}

func (f *sessionFam) finish(w *World, res *Result) {
	failureViolations(res, "C09", "C18")
	if res.Outcome == "steps" {
		// the run was cut off by the exploration's hand-off bound, in the middle of whatever was going on at that
		// instant: its history is not judged after the fact (a handful of runs in ten thousand; they are counted).
		// What was checked while it ran stands, and so does C09's verdict on the work it took.
		res.Viol = append(res.Viol, oracleC09(f, w, res)...)
		return
	}
	res.Viol = append(res.Viol, oracleC03(f, w)...)
	res.Viol = append(res.Viol, oracleC04(f, w)...)
	for _, o := range sessionOracles {
		res.Viol = append(res.Viol, o(f, w, res)...)
	}
	// C08's last clause - across the switch no application message is lost, duplicated or reordered in either
	// direction - is what the C01/C02 oracles decide: their verdicts on sessions that did switch count for C08 too
	var more []Violation
	for _, v := range res.Viol {
		if v.Prop != "C01" && v.Prop != "C02" {
			continue
		}
		i := strings.Index(v.Msg, " [")
		if i <= 0 {
			continue
		}
		a := v.Msg[:i]
		if len(w.evs(a, "upgrade")) == 0 {
			continue
		}
		more = append(more, Violation{Prop: "C08", Rule: "no-loss-across-switch", Sig: "no-loss-across-switch/" + v.Prop + "/" + v.Sig, Msg: v.Msg})
	}
	res.Viol = append(res.Viol, more...)
}

// sessionOracles is extended by the other oracle files.
var sessionOracles []func(f *sessionFam, w *World, res *Result) []Violation

var stateRank = map[string]int{"opening": 0, "open": 1, "closing": 2, "closed": 3}

func readyOf(st string) string {
	if i := strings.Index(st, "/"); i >= 0 {
		return st[:i]
	}
	return st
}

// oracleC03: forward-only state, exactly one close with a legal reason,
// silence after close, Send after close discarded; fault-free sessions stay open.
func oracleC03(f *sessionFam, w *World) []Violation {
	var out []Violation
	v := func(rule, ctx, msg string) {
		out = append(out, Violation{Prop: "C03", Rule: rule, Sig: joinSig(rule, ctx), Msg: msg})
	}
	type sess struct {
		rank     int
		closes   []Ev
		conn     *Ev
		closeSeq int
		closeT   time.Duration
	}
	ss := map[string]*sess{}
	get := func(a string) *sess {
		if ss[a] == nil {
			ss[a] = &sess{}
		}
		return ss[a]
	}
	sessionEv := map[string]bool{"message": true, "packet": true, "heartbeat": true, "upgrade": true, "upgrading": true, "flush": true, "drain": true, "packetCreate": true, "srv-flush": true, "srv-drain": true}
	for i := range w.Evs {
		e := &w.Evs[i]
		if e.Sess == "" {
			continue
		}
		s := get(e.Sess)
		if e.St != "" {
			r, ok := stateRank[readyOf(e.St)]
			if !ok {
				v("known-state", "", fmt.Sprintf("%s: unknown ready state %q at #%d", e.Sess, e.St, e.Seq))
			} else {
				if r < s.rank {
					v("forward-only", readyOf(e.St), fmt.Sprintf("%s: ready state went back to %s at event #%d (%s)", e.Sess, readyOf(e.St), e.Seq, e.Kind))
				}
				if r > s.rank {
					s.rank = r
				}
			}
		}
		switch e.Kind {
		case "connection":
			s.conn = e
			if readyOf(e.St) != "open" {
				v("handed-over-open", readyOf(e.St), fmt.Sprintf("%s: connection event delivered with state %s", e.Sess, e.St))
			}
		case "close":
			s.closes = append(s.closes, *e)
			if len(s.closes) == 1 {
				s.closeSeq, s.closeT = e.Seq, e.T
			}
			if readyOf(e.St) != "closed" {
				v("closed-at-close-event", readyOf(e.St), fmt.Sprintf("%s: close event delivered with state %s", e.Sess, e.St))
			}
		default:
			if sessionEv[e.Kind] && s.closeSeq > 0 && e.Seq > s.closeSeq {
				// an event in the very instant of the close is a handler that had passed its state
				// test when the close overtook it; an event at a later time is a different matter
				ctx := e.Kind + "/same-instant-as-close"
				if e.T > s.closeT {
					ctx = e.Kind + "/later-than-close"
				}
				v("silence-after-close", ctx, fmt.Sprintf("%s: %s event #%d (%q) after the close event #%d", e.Sess, e.Kind, e.Seq, clip(e.S, 40), s.closeSeq))
			}
		}
	}
	legal := map[string]bool{"transport close": true, "transport error": true, "ping timeout": true, "parse error": true, "forced close": true}
	for _, a := range sortedKeys(ss) {
		s := ss[a]
		if len(s.closes) > 1 {
			var rs []string
			for _, c := range s.closes {
				rs = append(rs, c.S)
			}
			sort.Strings(rs)
			v("exactly-one-close", "", fmt.Sprintf("%s: %d close events (reasons %v)", a, len(s.closes), rs))
		}
		for _, c := range s.closes {
			if !legal[c.S] {
				v("documented-reason", c.S, fmt.Sprintf("%s: close reason %q is not a documented one", a, c.S))
			}
		}
		// state closed without any close event
		if s.rank == 3 && len(s.closes) == 0 && s.conn != nil && len(w.evs(a, "close-before-attach")) == 0 {
			v("close-event-emitted", "", fmt.Sprintf("%s: session reached state closed but no close event was delivered", a))
		}
		// every client has been gone for the whole grace period (heartbeat deadline twice over, close timeout,
		// upgrade timeout): a cause to stop being open was present for every session, and a session that stops
		// being open emits its close event - a session that is still waiting (typically stuck in 'closing'
		// because the cause that should have finished it was dropped) never told the application
		if f.drained && s.rank < 3 && len(s.closes) == 0 && s.conn != nil && len(w.evs(a, "close-before-attach")) == 0 {
			st := "open"
			if s.rank == 2 {
				st = "closing"
			}
			v("close-event-emitted", "never-closed-after-peer-gone/"+st, fmt.Sprintf("%s: every client has been gone for %v but the session is still %s and no close event was delivered", a, f.grace, st))
		}
	}
	// Close returns: a call that is still on the stack when every client has long gone, and the run is over, is
	// waiting for something that will never happen (a lock held by a writer that is stuck on a peer that has stopped
	// reading, for instance)
	if f.drained {
		calls, rets := map[string]int{}, map[string]int{}
		for _, e := range w.Evs {
			switch e.Kind {
			case "app-close":
				calls[e.Sess]++
			case "app-close-ret":
				rets[e.Sess]++
			}
		}
		for _, a := range sortedKeys(calls) {
			if calls[a] > rets[a] {
				v("close-call-returns", "", fmt.Sprintf("%s: %d Close calls, %d returned by the end of the run", a, calls[a], rets[a]))
			}
		}
	}
	// cause attribution: the reason must be one the environment made possible
	for _, a := range sortedKeys(ss) {
		s := ss[a]
		if len(s.closes) == 0 {
			continue
		}
		armed := f.armedCauses(w, a, s.closes[0].Seq)
		if !armed[s.closes[0].S] && legal[s.closes[0].S] {
			v("reason-matches-cause", s.closes[0].S, fmt.Sprintf("%s: closed with %q but the only causes present were %v", a, s.closes[0].S, sortedKeys(armed)))
		}
	}
	// fault-free: every session that was opened is still open at the end of the scripted part
	if f.sc.FaultFree && f.ended {
		for _, c := range f.sc.Clients {
			s := ss[c.Name]
			if s == nil || s.conn == nil {
				continue
			}
			if st := f.snap[c.Name]; readyOf(st) != "open" {
				reason := ""
				if len(s.closes) > 0 {
					reason = s.closes[0].S
				}
				v("stays-open-without-cause", reason, fmt.Sprintf("%s: no close cause was present but the session is %s at the end (close reason %q)", c.Name, st, reason))
			}
		}
	}
	// Send after close is silently discarded: no packetCreate for it (covered by
	// silence-after-close) and the client never receives it
	for _, a := range sortedKeys(w.sent) {
		s := ss[a]
		if s == nil || s.closeSeq == 0 {
			continue
		}
		late := map[string]bool{}
		for _, m := range w.sent[a] {
			if m.Seq > s.closeSeq {
				late[kindPrefix(m.Binary)+string(m.Data)] = true
			}
		}
		for _, e := range w.evs(a, "c-recv") {
			if late[e.S] {
				v("send-after-close-discarded", "", fmt.Sprintf("%s: message %q sent after the close event was delivered to the client", a, clip(e.S, 40)))
			}
		}
	}
	return out
}

func joinSig(rule, ctx string) string {
	if ctx == "" {
		return rule
	}
	return rule + "/" + ctx
}

func clip(s string, n int) string {
	if len(s) > n {
		return s[:n] + "..."
	}
	return s
}

// armedCauses lists the close reasons the environment had made possible for
// session a before event seq.
func (f *sessionFam) armedCauses(w *World, a string, seq int) map[string]bool {
	armed := map[string]bool{}
	for _, e := range w.Evs {
		if e.Seq >= seq {
			break
		}
		if e.Kind == "app-server-close" || e.Kind == "app-http-close" {
			armed["forced close"] = true
		}
		if e.Kind == "fault" {
			// faults are recorded without session; attribute conservatively to all
			switch e.S {
			case "abort-request", "overlap-poll", "overlap-post", "stream-reset", "wrong-heartbeat", "stream-error-at-offset", "write-error":
				armed["transport error"] = true
				armed["transport close"] = true
			case "stream-eof":
				armed["transport close"] = true
				armed["transport error"] = true
			case "bad-packet":
				armed["parse error"] = true
			case "silence":
				armed["ping timeout"] = true
			}
		}
		if e.Sess != a {
			continue
		}
		switch e.Kind {
		case "app-close", "reent-call":
			armed["forced close"] = true
		case "c-close", "c-close-sent":
			// the peer closing its connection: reported as transport close, or as transport error when
			// the carrier signals the closure as a stream reset (WebTransport session close)
			armed["transport close"] = true
			armed["transport error"] = true
		case "c-gone":
			// the client gave up (it saw an error or a close packet): the server may
			// notice as transport close/error or, if nothing is in flight, only by ping timeout
			armed["transport close"] = true
			armed["transport error"] = true
			armed["ping timeout"] = true
		case "c-handshake-aborted":
			armed["transport close"], armed["transport error"], armed["ping timeout"] = true, true, true
		case "c-pong-withheld", "c-ping-skipped", "c-silent":
			armed["ping timeout"] = true
		case "c-raw":
			// raw clients may cause anything a client can cause
			armed["transport close"], armed["transport error"], armed["parse error"], armed["ping timeout"] = true, true, true, true
		}
	}
	if f.ended {
		// after the end of the scripted part every client vanishes
		for _, e := range w.Evs {
			if e.Kind == "drain-start" && e.Seq < seq {
				armed["transport close"], armed["transport error"], armed["ping timeout"] = true, true, true
			}
		}
	}
	// late pongs: a pong delayed beyond the timeout is a cause of ping timeout
	for _, c := range f.sc.Clients {
		if c.Name != a {
			continue
		}
		pt := f.sc.Opts.PingTimeoutMs
		if pt == 0 {
			pt = 20000
		}
		for _, d := range c.PongDelayMs {
			// the ping may have waited for the client's next poll (think time between polls) and the pong
			// travels as a request of its own: all of it counts against the timeout
			if d+4*c.LatencyMs+c.PollGapMs+2 >= pt {
				armed["ping timeout"] = true
			}
		}
		if c.LatencyMs*2 >= pt {
			armed["ping timeout"] = true
		}
		if c.EIO != 4 && c.V3PingMs > 0 {
			pi := f.sc.Opts.PingIntervalMs
			if pi == 0 {
				pi = 25000
			}
			// a revision-3 client that pings about as rarely as the deadline allows
			if c.V3PingMs+4*c.LatencyMs+c.PollGapMs+2 >= pi+pt {
				armed["ping timeout"] = true
			}
		}
		if len(c.Raw) > 0 || len(c.Cand) > 0 {
			// a raw client is not bound by the protocol
			if len(c.Raw) > 0 {
				armed["transport close"], armed["transport error"], armed["parse error"], armed["ping timeout"] = true, true, true, true
			}
		}
	}
	return armed
}

// oracleC04: history part (ids, dead-sid probes, final registry).
func oracleC04(f *sessionFam, w *World) []Violation {
	var out []Violation
	v := func(rule, ctx, msg string) {
		out = append(out, Violation{Prop: "C04", Rule: rule, Sig: joinSig(rule, ctx), Msg: msg})
	}
	seen := map[string]bool{}
	for _, id := range w.AllIDs {
		if seen[id] {
			v("ids-unique", "", "session id "+id+" was handed out twice")
		}
		seen[id] = true
		if !sidRe.MatchString(id) {
			v("ids-url-safe", "", fmt.Sprintf("session id %q is not URL-safe", id))
		}
	}
	for _, e := range w.evs("", "dead-sid-probe") {
		if e.N != 400 || !strings.Contains(e.S, `"code":1`) || !strings.Contains(e.S, "Session ID unknown") {
			c := ""
			if len(e.P) > 0 {
				c = e.P[0]
			}
			v("closed-session-unknown", c, fmt.Sprintf("%s request naming closed session of %s answered %d %q", strings.TrimSpace(c+" polling"), e.Sess, e.N, clip(e.S, 80)))
		}
	}
	if f.drained {
		for _, e := range w.evs("", "final-registry") {
			if len(e.P) != 0 || e.N != 0 {
				sig := ""
				if uint64(e.N) > 1<<62 {
					sig = "underflow"
				}
				v("empty-after-drain", sig, fmt.Sprintf("all clients gone for %v but Clients()=%v ClientsCount()=%d", f.grace, e.P, uint64(e.N)))
			}
		}
	}
	return out
}
