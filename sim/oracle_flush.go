package sim

import (
	"fmt"
	"regexp"
	"strings"
)

func init() {
	sessionOracles = append(sessionOracles, oracleC18)
}

// a packet whose data is an opaque reader is rendered with the reader's remaining length
var readerRe = regexp.MustCompile(`reader\(\d+\)`)

// oracleC18: flush/drain pairing, packetCreate, send callbacks.
// (re-entrancy deadlocks are reported by simrt as self-deadlock failures and
// attributed to C18 in sessionFam.finish)
func oracleC18(f *sessionFam, w *World, res *Result) []Violation {
	l := &vlist{prop: "C18"}
	for _, a := range sortedKeys(w.Socks) {
		ctx := f.sessCtx(a)
		closeSeq := 1 << 30
		if c := w.evs(a, "close"); len(c) > 0 {
			closeSeq = c[0].Seq
		}
		// the application's listeners are complete from the app-attached event on; a hand-off that
		// was in progress while they were being registered is seen only in part
		attached := 1 << 30
		if c := w.evs(a, "app-attached"); len(c) > 0 {
			attached = c[0].Seq
		}
		lastSrvFlushBefore := 0
		for _, e := range w.evs(a, "srv-flush") {
			if e.Seq < attached {
				lastSrvFlushBefore = e.Seq
			}
		}
		_ = lastSrvFlushBefore
		// 1. flush -> drain alternation on the session and on the server
		for _, pair := range [][2]string{{"flush", "drain"}, {"srv-flush", "srv-drain"}} {
			open := 0
			started := false
			for _, e := range w.Evs {
				if e.Sess != a {
					continue
				}
				if pair[0] == "flush" {
					// session level: start judging at the first flush after the listeners were complete
					if e.Seq < attached {
						continue
					}
					if !started {
						if e.Kind != pair[0] {
							continue
						}
						started = true
					}
				}
				switch e.Kind {
				case pair[0]:
					if len(e.P) == 0 {
						l.add("flush-carries-packets", pair[0], fmt.Sprintf("%s: %s event #%d without packets", a, pair[0], e.Seq))
					}
					open++
					if open > 1 {
						l.add("one-drain-per-flush", pair[0]+"/missing-drain", fmt.Sprintf("%s [%s]: second %s (#%d) before the %s of the previous hand-off", a, ctx, pair[0], e.Seq, pair[1]))
						open = 1
					}
				case pair[1]:
					if open == 0 {
						if e.Seq < closeSeq {
							l.add("one-drain-per-flush", pair[1]+"/extra-drain", fmt.Sprintf("%s [%s]: %s event #%d without a preceding %s", a, ctx, pair[1], e.Seq, pair[0]))
						}
					} else {
						open--
					}
				}
			}
			if open > 0 && closeSeq == 1<<30 && f.drained {
				l.add("one-drain-per-flush", pair[0]+"/no-drain", fmt.Sprintf("%s [%s]: a %s was never followed by %s", a, ctx, pair[0], pair[1]))
			}
		}
		// 2. the server-level flush carries the same packets as the session-level one
		var sf, ssf []Ev
		connSeq := 0
		if c := w.evs(a, "connection"); len(c) > 0 {
			connSeq = c[0].Seq
		}
		for _, e := range w.Evs {
			if e.Sess == a && e.Kind == "flush" {
				sf = append(sf, e)
			}
			if e.Sess == a && e.Kind == "srv-flush" && e.Seq > connSeq {
				ssf = append(ssf, e)
			}
		}
		// each session-level flush (seen once the listeners are complete) is followed by the server-level one with the same packets
		for i := range sf {
			if sf[i].Seq < attached {
				continue
			}
			var next *Ev
			for j := range ssf {
				if ssf[j].Seq > sf[i].Seq {
					next = &ssf[j]
					break
				}
			}
			if next == nil && (res.Outcome == "fail" || res.Outcome == "steps" || res.Outcome == "yields") {
				continue // the run was cut short (a runtime failure, reported on its own, or the exploration's step bound)
			}
			if next == nil || readerRe.ReplaceAllString(strings.Join(sf[i].P, "\x00"), "reader") != readerRe.ReplaceAllString(strings.Join(next.P, "\x00"), "reader") {
				l.add("server-flush-same-packets", "", fmt.Sprintf("%s: flush #%d on the session is not followed by a server-level flush with the same packets", a, sf[i].Seq))
			}
		}
		// 3. packetCreate exactly once per accepted Send, before the packet is in a flush
		created := map[string]int{}
		for _, e := range w.evs(a, "packetCreate") {
			if strings.HasPrefix(e.S, "message|") {
				created[strings.TrimPrefix(e.S, "message|")]++
			}
		}
		flushedAt := map[string]int{}
		for _, e := range sf {
			for _, p := range e.P {
				if strings.HasPrefix(p, "message|") {
					k := strings.TrimPrefix(p, "message|")
					if flushedAt[k] == 0 {
						flushedAt[k] = e.Seq
					} else {
						l.add("packet-flushed-once", "", fmt.Sprintf("%s [%s]: message %q appears in two flush events (#%d and #%d)", a, ctx, clip(k, 40), flushedAt[k], e.Seq))
					}
				}
			}
		}
		// a hand-off that took place before the application had registered its session-level listeners (a Send
		// racing the connection listener) is seen at the server level only
		for _, e := range ssf {
			if e.Seq > attached {
				break
			}
			for _, p := range e.P {
				if strings.HasPrefix(p, "message|") {
					if k := strings.TrimPrefix(p, "message|"); flushedAt[k] == 0 {
						flushedAt[k] = e.Seq
					}
				}
			}
		}
		for _, m := range w.sent[a] {
			k := kindPrefix(m.Binary) + string(m.Data)
			if m.Seq < attached {
				continue // the application's packetCreate listener was not registered yet
			}
			accepted := m.State == "open" || m.State == "opening"
			n := created[k]
			if accepted && m.Seq < closeSeq {
				if n > 1 {
					l.add("packet-create-once", "", fmt.Sprintf("%s: packetCreate fired %d times for one Send (%q)", a, n, clip(k, 40)))
				}
				stillOpen := false
				for _, e := range w.Evs {
					if e.Seq == m.SeqRet && e.Kind == "app-send-ret" && readyOf(e.St) == "open" {
						stillOpen = true
					}
				}
				if n == 0 && m.SeqRet != 0 && m.SeqRet < closeSeq && stillOpen {
					// the state may have changed between our sample and the call; only flag if the session was open on return too
					l.add("packet-create-once", "missing", fmt.Sprintf("%s: Send(%q) on an open session produced no packetCreate", a, clip(k, 40)))
				}
			}
			if !accepted && n > 0 {
				l.add("send-after-close-discarded", m.State, fmt.Sprintf("%s: Send in state %s still created a packet", a, m.State))
			}
		}
		for _, e := range w.evs(a, "packetCreate") {
			if strings.HasPrefix(e.S, "message|") {
				k := strings.TrimPrefix(e.S, "message|")
				if fs, ok := flushedAt[k]; ok && fs < e.Seq {
					l.add("packet-create-before-buffering", "", fmt.Sprintf("%s: message %q flushed (#%d) before its packetCreate (#%d)", a, clip(k, 40), fs, e.Seq))
				}
			}
		}
		// 4. callbacks: at most once, not before the flush of their batch, in send order, none after close
		cbSeq := map[string][]int{}
		var cbOrder []string
		for _, e := range w.evs(a, "app-cb") {
			cbSeq[e.S] = append(cbSeq[e.S], e.Seq)
			cbOrder = append(cbOrder, e.S)
			if e.Seq > closeSeq {
				// in the very instant of the close the writer goroutine of the last batch had picked up its listeners
				// before the close detached them (recorded finding); at a later instant nothing of the kind can be under way
				when := "same-instant-as-close"
				if ce := w.evs(a, "close"); len(ce) > 0 && e.T > ce[0].T {
					when = "later-than-close"
				}
				l.add("no-callback-after-close", when, fmt.Sprintf("%s [%s]: send callback of %s ran at #%d, after the close event #%d", a, ctx, e.S, e.Seq, closeSeq))
			}
		}
		var withCB []SentMsg
		for _, m := range w.sent[a] {
			if m.CB {
				withCB = append(withCB, m)
			}
		}
		pos := map[string]int{}
		for i, m := range withCB {
			pos[m.ID] = i
			k := kindPrefix(m.Binary) + string(m.Data)
			seqs := cbSeq[m.ID]
			if len(seqs) > 1 {
				l.add("callback-at-most-once", "", fmt.Sprintf("%s [%s]: callback of %s ran %d times", a, ctx, m.ID, len(seqs)))
			}
			if len(seqs) >= 1 {
				fs, ok := flushedAt[k]
				if !ok {
					l.add("callback-not-before-flush", "never-flushed", fmt.Sprintf("%s [%s]: callback of %s ran at #%d but its packet was never part of a flush event", a, ctx, m.ID, seqs[0]))
				} else if seqs[0] < fs {
					l.add("callback-not-before-flush", "", fmt.Sprintf("%s [%s]: callback of %s ran at #%d, before the flush event #%d of the batch containing its packet", a, ctx, m.ID, seqs[0], fs))
				}
			}
		}
		// order: callbacks of one sending task run in the order of their sends
		lastPos := map[string]int{}
		bySender := map[string]string{}
		for _, m := range withCB {
			bySender[m.ID] = m.Sender
		}
		for _, id := range cbOrder {
			s := bySender[id]
			p, ok := pos[id]
			if !ok {
				continue
			}
			if lp, seen := lastPos[s]; seen && p < lp {
				l.add("callbacks-in-send-order", "", fmt.Sprintf("%s [%s]: callback of %s ran after the callback of a later send of the same sender", a, ctx, id))
			}
			lastPos[s] = p
		}
	}
	return l.out
}
