package sim

import (
	"fmt"
	"strings"
	"time"

	"verif/sim/ref"
)

func init() {
	sessionOracles = append(sessionOracles, oracleC08, oracleC11, oracleC12)
}

func transportOf(st string) string {
	f := strings.Split(st, "/")
	if len(f) >= 2 {
		return f[1]
	}
	return ""
}

func flagsOf(st string) string {
	f := strings.Split(st, "/")
	if len(f) >= 3 {
		return f[2]
	}
	return ""
}

// oracleC08: outcome-based upgrade oracle.
func oracleC08(f *sessionFam, w *World, res *Result) []Violation {
	l := &vlist{prop: "C08"}
	for _, a := range sortedKeys(w.Socks) {
		sp := f.spec(a)
		if sp == nil || len(sp.Raw) > 0 {
			continue
		}
		ctx := f.sessCtx(a)
		// transport changes, as sampled at every session event
		cur, changes := "", 0
		firstChangeSeq := 0
		for _, e := range w.Evs {
			if e.Sess != a || e.St == "" {
				continue
			}
			t := transportOf(e.St)
			if t == "-" || t == "" {
				continue
			}
			if cur != "" && t != cur {
				changes++
				if changes == 1 {
					firstChangeSeq = e.Seq
				}
			}
			cur = t
		}
		ups := w.evs(a, "upgrade")
		if changes > 1 || len(ups) > 1 {
			l.add("at-most-once", "", fmt.Sprintf("%s [%s]: the session's transport changed %d times (%d upgrade events)", a, ctx, changes, len(ups)))
		}
		if changes >= 1 {
			// only upon an upgrade packet of a candidate that had been answered with the probe pong
			sentUpgrade := w.evs(a, "c-upgraded")
			unprobed := w.evs(a, "c-cand-upgrade-unprobed")
			ok := false
			for _, e := range sentUpgrade {
				if e.Seq < firstChangeSeq+3 {
					ok = true
				}
			}
			for _, e := range w.evs(a, "c-cand-recv") {
				// the server answered this candidate's probe before the switch: it was probed as far as the server is
				// concerned (a packet the script sent before can have been dropped unseen - the known reader-before-listener defect)
				if e.S == "3|t:probe" && e.Seq < firstChangeSeq+3 {
					ok = true
					w.probe("switch_for_scripted_candidate_whose_probe_was_answered")
				}
			}
			for _, e := range w.evs(a, "upgrading") {
				// (the same seen from the server: 'upgrading' is emitted when a candidate's probe is answered; the
				// client may collect the pong only later)
				if e.Seq < firstChangeSeq {
					ok = true
				}
			}
			if !ok {
				c := ""
				if len(unprobed) > 0 {
					c = "unprobed-upgrade-packet"
				}
				l.add("switch-only-on-probed-upgrade", c, fmt.Sprintf("%s [%s]: transport switched at event #%d but no candidate had completed probe+upgrade (unprobed upgrade packets sent: %d)", a, ctx, firstChangeSeq, len(unprobed)))
			}
		}
		closeEv := w.evs(a, "close")
		closed := len(closeEv) > 0
		// conformant candidate on an open, unchallenged session completes the switch
		if sp.Upgrade != "" && len(sp.Cand) == 0 && f.sc.FaultFree && f.conformantToEnd(w, a) {
			starts := w.evs(a, "c-probe-start")
			if len(starts) > 0 && f.endAt-starts[0].T > 400*time.Millisecond+4*time.Duration(sp.LatencyMs)*time.Millisecond {
				done := w.evs(a, "c-upgraded")
				if len(done) == 0 || len(ups) == 0 {
					why := "the candidate never received the probe pong"
					if len(w.evs(a, "c-probe-pong")) > 0 {
						why = "probe pong received, but the pending poll was not released / upgrade not completed"
					}
					if len(w.evs(a, "c-probe-failed")) > 0 {
						why = "probe failed: " + w.evs(a, "c-probe-failed")[0].S
					}
					stage := "probe-never-handled" // the server never emitted 'upgrading': the probe ping reached nobody
					if len(w.evs(a, "upgrading")) > 0 {
						stage = "probe-answered-switch-not-completed"
					}
					l.add("conformant-candidate-completes", sp.Upgrade+"/"+stage, fmt.Sprintf("%s [%s]: conformant %s candidate started at %v on an open session did not complete the switch by %v (%s)", a, ctx, sp.Upgrade, starts[0].T, f.endAt, why))
				} else {
					lim := 100*time.Millisecond + 6*time.Duration(sp.LatencyMs)*time.Millisecond + time.Duration(sp.PollGapMs)*time.Millisecond + 5*time.Millisecond
					lim += time.Duration(w.S.StallMs) * time.Millisecond // (stalled tasks: the time they lost)
					for _, op := range f.sc.App {
						if op.SlowMs > 0 && (op.Sess == a || op.Op == "broadcast") {
							lim += time.Duration(op.SlowMs) * time.Millisecond // (a poll response held up by the application's slow data reader)
						}
					}
					for _, r := range f.sc.Reent {
						if r.Call == "sleep" && (r.Sess == "" || r.Sess == a) {
							lim += time.Duration(r.Ms) * time.Millisecond // (a listener that takes its time)
						}
					}
					if d := done[0].T - starts[0].T; d > lim {
						l.add("switch-in-bounded-time", sp.Upgrade, fmt.Sprintf("%s [%s]: conformant switch took %v (> probe latency + 100 ms check + margin = %v)", a, ctx, d, lim))
					}
				}
				if f.ended && !closed && readyOf(f.snap[a]) != "open" {
					l.add("upgrade-keeps-session", "", fmt.Sprintf("%s [%s]: session is %s after a conformant upgrade", a, ctx, f.snap[a]))
				}
			}
		}
		// a failed candidate never costs the session
		// (the flag and tick rules hold in every fault class - they look at a session that is open at the end and had no
		// other candidate; what closes a session, and whether a retry gets through, is judged in fault-free runs only)
		if len(sp.Cand) > 0 && len(sp.Faults) == 0 && sp.StopAtMs == 0 && sp.CloseAtMs == 0 && !impatientSpec(sp) {
			switched := len(w.evs(a, "c-upgraded")) > 0
			if !switched {
				if closed && closeEv[0].T < f.endAt && f.sc.FaultFree {
					l.add("failed-candidate-keeps-session", closeEv[0].S, fmt.Sprintf("%s [%s]: a misbehaving candidate (%s) cost the session: closed with %q", a, ctx, candScript(sp.Cand), closeEv[0].S))
				}
				// (the harness itself closes every connection after the end snapshot: only a close before it counts)
				if f.ended && readyOf(f.snap[a]) == "open" {
					ends := w.evs(a, "c-cand-end", "c-cand-disconnect")
					st := f.snap[a]
					// the flag may belong to a later candidate (retry): only a session with no candidate after the failed one is judged
					allStarts := w.evs(a, "c-probe-start")
					// (the client notices the end of a scripted candidate only when it next touches it, possibly long after
					// the server dropped it: any second candidate at all is enough to leave the flag unjudged)
					laterCand := len(allStarts) >= 2
					if laterCand || sp.Upgrade != "" {
						st = "" // a second (conformant) candidate ran next to the scripted one: the flag may be its own
					}
					if strings.Contains(flagsOf(st), "U") && len(ends) > 0 && f.endAt-ends[0].T > 50*time.Millisecond {
						l.add("not-upgrading-after-failure", "", fmt.Sprintf("%s [%s]: candidate ended at %v but the session is still marked upgrading at %v", a, ctx, ends[0].T, f.endAt))
					}
					// "fully usable on its original transport": once the candidate is gone (and no other candidate came),
					// the 100 ms fast-upgrade tick must be gone too - polls stay pending until there is something to send
					if !laterCand && sp.Upgrade == "" && len(ends) > 0 {
						n := 0
						var first Ev
						for _, e := range w.evs(a, "c-noop") {
							if e.T > ends[0].T+250*time.Millisecond && e.T < f.endAt {
								if n == 0 {
									first = e
								}
								n++
							}
						}
						if n >= 2 {
							l.add("no-upgrade-tick-after-failure", "", fmt.Sprintf("%s [%s]: candidate ended at %v, yet %d polls were answered with an unsolicited noop afterwards (first at %v): the fast-upgrade tick is still running", a, ctx, ends[0].T, n, first.T))
						}
					}
					ut := time.Duration(f.sc.Opts.UpgradeTimeoutMs) * time.Millisecond
					if ut == 0 {
						ut = 10 * time.Second
					}
					starts := w.evs(a, "c-probe-start")
					if strings.Contains(flagsOf(st), "U") && len(starts) > 0 && f.endAt-starts[0].T > ut+200*time.Millisecond {
						l.add("not-upgrading-after-timeout", "", fmt.Sprintf("%s [%s]: candidate opened at %v, upgrade timeout %v, but the session is still marked upgrading at %v", a, ctx, starts[0].T, ut, f.endAt))
					}
					if sp.Retry && f.sc.FaultFree && f.endAt-time.Duration(sp.RetryAtMs)*time.Millisecond > 500*time.Millisecond {
						if len(w.evs(a, "c-probe-start")) >= 2 && len(w.evs(a, "c-upgraded")) == 0 {
							// the retry started but never completed
							rs := w.evs(a, "c-probe-start")
							retryStart := rs[len(rs)-1]
							if len(ends) == 0 || ends[0].Seq > retryStart.Seq {
								// the scripted candidate was still being entertained when the retry came: refusing the retry is right
								w.probe("retry_while_candidate_active")
								continue
							}
							stage := "" // refused or abandoned by the server
							handled := false
							for _, e := range w.evs(a, "upgrading") {
								if e.Seq > retryStart.Seq {
									handled = true
								}
							}
							refused := false
							utLim := time.Duration(f.sc.Opts.UpgradeTimeoutMs) * time.Millisecond
							if utLim == 0 {
								utLim = 10 * time.Second
							}
							for _, e := range w.evs(a, "c-probe-failed") {
								// closed by the server well before the upgrade timeout: refused at the gate or dropped
								if e.Seq > retryStart.Seq && f.endAt > e.T && e.T-retryStart.T < utLim-20*time.Millisecond {
									refused = true
								}
							}
							if !handled && !refused {
								// the retry's probe ping reached nobody (reader started before MaybeUpgrade attached its listener): the known C08 defect
								stage = retryStart.S + "/probe-never-handled"
							}
							l.add("later-candidate-succeeds", stage, fmt.Sprintf("%s [%s]: after a failed candidate (%s) a later conformant candidate did not complete", a, ctx, candScript(sp.Cand)))
						}
					}
				}
			}
		}
	}
	return l.out
}

func candScript(c []CandOp) string {
	var s []string
	for _, o := range c {
		s = append(s, o.Op)
	}
	return strings.Join(s, ",")
}

// isEnginePath reports whether a URL addressed the engine with a polling transport.
func pollingReq(r *Resp) (sid string, ok bool) {
	i := strings.Index(r.URL, "?")
	if i < 0 {
		return "", false
	}
	q := r.URL[i+1:]
	if !strings.Contains(q, "transport=polling") {
		return "", false
	}
	for _, kv := range strings.Split(q, "&") {
		if strings.HasPrefix(kv, "sid=") {
			sid = kv[4:]
		}
	}
	return sid, true
}

// oracleC11: polling discipline.
func oracleC11(f *sessionFam, w *World, res *Result) []Violation {
	l := &vlist{prop: "C11"}
	sidAlias := map[string]string{}
	for a, s := range w.SockIDs {
		sidAlias[s] = a
	}
	closeT := map[string]*Ev{}
	for i, e := range w.Evs {
		if e.Kind == "close" && closeT[e.Sess] == nil {
			closeT[e.Sess] = &w.Evs[i]
		}
	}
	// overlap bookkeeping from the request/return events
	type open struct{ get, post []*Resp }
	pending := map[string]*open{}
	byID := map[int]*Resp{}
	for _, r := range w.resps {
		byID[r.ID] = r
	}
	for _, r := range w.resps {
		if r.Hijacked || r.h3 != nil || r.Client == "prober" {
			continue
		}
		sid, ok := pollingReq(r)
		if !ok {
			continue
		}
		a := sidAlias[sid]
		sp := f.spec(r.Client)
		ctx := r.Method
		if a != "" && (r.Method == "GET" || r.Method == "POST") {
			// exactly one response, never two, never none
			if r.NWH > 1 {
				l.add("one-response", "two/"+ctx, fmt.Sprintf("%s: %s request #%d got %d WriteHeader calls", r.Client, r.Method, r.ID, r.NWH))
			}
			if r.NWH == 0 && !r.Aborted && f.drained {
				c := ctx
				if r.Returned {
					c += "/handler-returned"
				} else {
					c += "/handler-stuck"
				}
				if sp != nil && len(sp.Raw) > 0 {
					c += "/raw"
				}
				l.add("one-response", "none/"+c, fmt.Sprintf("%s: %s request #%d (%s) never received a response (handler returned=%v)", r.Client, r.Method, r.ID, clip(r.URL, 60), r.Returned))
			}
			if !r.Returned && f.drained {
				l.add("handler-returns", ctx, fmt.Sprintf("%s: handler of %s request #%d still blocked after all clients were gone for %v", r.Client, r.Method, r.ID, f.grace))
			}
			// a data request is answered as soon as its payload has been dealt with (nothing holds it back but the
			// application's own slow listeners): one that was still unanswered when the run was wound up never was
			if r.Method == "POST" && r.WindUp && r.NWH == 0 {
				slack := 100 * time.Millisecond
				for _, re := range f.sc.Reent {
					if re.Call == "sleep" {
						slack += time.Duration(re.Ms) * time.Millisecond
					}
				}
				if drainTimeOf(w)-r.T0 > slack {
					c := "POST/unanswered-at-wind-up"
					if sp != nil && len(sp.Raw) > 0 {
						c += "/raw"
					}
					l.add("one-response", "none/"+c, fmt.Sprintf("%s: data request #%d (%s) arrived at %v and had no response when the run was wound up at %v", r.Client, r.ID, clip(r.URL, 60), r.T0, drainTimeOf(w)))
				}
			}
			// a pending poll is answered at the latest when the session closes: one that was still unanswered
			// when the run was wound up, long after its session had closed, never was
			if ce := closeT[a]; ce != nil && r.Method == "GET" && r.WindUp && r.NWH == 0 && r.T0 < ce.T && ce.Seq < drainSeqOf(w) && drainTimeOf(w)-ce.T >= 100*time.Millisecond && (sp == nil || len(sp.Raw) == 0) {
				l.add("pending-poll-answered-at-close", "never", fmt.Sprintf("%s: poll #%d was pending when the session closed at %v (%s) and was never answered", r.Client, r.ID, ce.T, ce.S))
			}
			if ce := closeT[a]; ce != nil && r.Method == "GET" && !r.Aborted && r.NWH >= 1 && r.T0 <= ce.T {
				// (an application listener or send callback that takes its time holds the transport's write lock
				// for that long: the answer may be that late)
				slack := time.Duration(0)
				for _, re := range f.sc.Reent {
					if re.Call == "sleep" && (re.Sess == "" || re.Sess == a) {
						slack += time.Duration(re.Ms) * time.Millisecond
					}
				}
				// ... and so does a batch whose data the application hands over through a slow reader: the poll has been
				// taken by the flush and is answered when the reader has delivered
				for _, op := range f.sc.App {
					if op.Sess == a && op.SlowMs > 0 {
						slack += time.Duration(op.SlowMs) * time.Millisecond
					}
				}
				if wh := w.Evs[r.SeqWH-1]; wh.T > ce.T+slack {
					l.add("pending-poll-answered-at-close", "", fmt.Sprintf("%s: poll #%d was pending when the session closed at %v but was answered only at %v", r.Client, r.ID, ce.T, wh.T))
				}
			}
		}
	}
	// overlap rule: replay the request/return order
	for _, e := range w.Evs {
		switch e.Kind {
		case "http-req":
			r := byID[int(e.N)]
			if r == nil || r.Hijacked || r.h3 != nil {
				continue
			}
			sid, ok := pollingReq(r)
			a := sidAlias[sid]
			if !ok || a == "" {
				continue
			}
			p := pending[a]
			if p == nil {
				p = &open{}
				pending[a] = p
			}
			if r.Method == "GET" {
				p.get = append(p.get, r)
			} else if r.Method == "POST" {
				p.post = append(p.post, r)
			}
		case "http-ret":
		}
	}
	// evaluate overlaps: two requests of the same kind whose [T0 seq, return seq] intervals intersect
	for _, a := range sortedKeys(pending) {
		p := pending[a]
		for _, list := range [][]*Resp{p.get, p.post} {
			for i := 0; i < len(list); i++ {
				for j := i + 1; j < len(list); j++ {
					x, y := list[i], list[j]
					xret := x.SeqRet
					if xret == 0 {
						xret = 1 << 30
					}
					yStart := reqSeq(w, y)
					if yStart > xret {
						continue // no overlap
					}
					// y started while x was outstanding and unanswered?
					if x.SeqWH != 0 && x.SeqWH < yStart {
						continue // x was already answered (handler about to return): not an overlap at the server
					}
					// x was answered after y's handler started but before y was answered: the transport may have
					// seen them one after the other; a certain overlap is y being answered while x was still pending
					if x.SeqWH != 0 && y.SeqWH != 0 && x.SeqWH < y.SeqWH {
						continue
					}
					// within one virtual instant the order in which two handlers reach the transport is not
					// observable from outside: an overlap is certain only if x had been pending since an earlier instant
					if y.T0 <= x.T0 {
						w.probe("same_instant_requests_not_judged")
						continue
					}
					ce := closeT[a]
					if ce != nil && ce.Seq < yStart {
						continue // session already closed: other rules apply
					}
					if y.Aborted || x.Aborted {
						continue // a request the client (or the end of the run) abandoned has no status to look at
					}
					if y.Status != 400 && x.Status != 400 && (y.NWH > 0 || f.drained) {
						l.add("overlap-refused", x.Method, fmt.Sprintf("%s: %s requests #%d and #%d overlapped but neither was answered 400 (got %d and %d)", a, x.Method, x.ID, y.ID, x.Status, y.Status))
					}
					if ce == nil && f.drained {
						l.add("overlap-closes-session", x.Method, fmt.Sprintf("%s: overlapping %s requests but the session was not closed", a, x.Method))
					} else if ce != nil && ce.S != "transport error" && ce.Seq > yStart && ce.Seq < yStart+12 && !f.armedCauses(w, a, ce.Seq)[ce.S] {
						// (a close for another cause that was around in the same instant - an application close, a
						// shutdown - may win the race against the overlap's transport error)
						l.add("overlap-closes-session", ce.S, fmt.Sprintf("%s: overlapping %s requests closed the session with %q", a, x.Method, ce.S))
					}
				}
			}
		}
	}
	// the converse of the overlap rule: a request is refused as overlapping (400, empty body) only if another
	// request of its kind really was outstanding when it arrived
	for _, a := range sortedKeys(pending) {
		p := pending[a]
		for _, list := range [][]*Resp{p.get, p.post} {
			for j, y := range list {
				if y.Status != 400 || len(y.Body) != 0 || y.Aborted {
					continue
				}
				yStart := reqSeq(w, y)
				if ce := closeT[a]; ce != nil && ce.Seq < yStart+3 {
					continue // the session was closing or closed: other rules
				}
				outstanding := false
				for i, x := range list {
					if i == j {
						continue
					}
					xs := reqSeq(w, x)
					if xs < yStart && (x.SeqWH == 0 || x.SeqWH > yStart) {
						outstanding = true // x had arrived and was not answered yet
					}
					if x.T0 == y.T0 {
						outstanding = true // same instant: order not observable
					}
				}
				if sp := f.spec(a); sp == nil || len(sp.Raw) > 0 {
					continue
				}
				if !outstanding {
					l.add("refused-without-overlap", y.Method, fmt.Sprintf("%s: %s request #%d was answered 400 as overlapping although no other %s request of the session was outstanding when it arrived", a, y.Method, y.ID, y.Method))
				}
			}
		}
	}
	// "ok" only after every packet of the payload was processed
	for _, ps := range w.evs("", "c-post-start") {
		r := byID[int(ps.N)]
		if r == nil || r.Status != 200 || string(r.Body) != "ok" {
			continue
		}
		want := map[string]bool{}
		for _, p := range ps.P {
			want[p] = true
		}
		if len(want) == 0 {
			continue
		}
		closeSeq := 1 << 30
		if ce := closeT[ps.Sess]; ce != nil {
			closeSeq = ce.Seq
		}
		got := map[string]int{}
		for _, e := range w.evs(ps.Sess, "message") {
			if want[e.S] && e.Seq > ps.Seq {
				if got[e.S] == 0 {
					got[e.S] = e.Seq
				}
			}
		}
		for p := range want {
			if s, ok := got[p]; ok && s > r.SeqWH {
				l.add("ok-after-processing", "", fmt.Sprintf("%s: data request #%d acknowledged at event #%d before its message %q was delivered (#%d)", ps.Sess, r.ID, r.SeqWH, clip(p, 40), s))
			} else if !ok && closeSeq > r.SeqWH {
				// acknowledged but never delivered while the session was open: C02 reports the loss
				_ = p
			}
		}
	}
	return l.out
}

func reqSeq(w *World, r *Resp) int {
	for _, e := range w.Evs {
		if e.Kind == "http-req" && int(e.N) == r.ID {
			return e.Seq
		}
	}
	return 0
}

// oracleC12: orderly close and shutdown.
func oracleC12(f *sessionFam, w *World, res *Result) []Violation {
	l := &vlist{prop: "C12"}
	o := f.sc.Opts
	pi, pt := time.Duration(o.PingIntervalMs)*time.Millisecond, time.Duration(o.PingTimeoutMs)*time.Millisecond
	if pi == 0 {
		pi = 25 * time.Second
	}
	if pt == 0 {
		pt = 20 * time.Second
	}
	bound := 30 * time.Second
	if pi+pt > bound {
		bound = pi + pt
	}
	for _, ac := range w.evs("", "app-close") {
		a := ac.Sess
		if ac.S != "close" || readyOf(ac.St) != "open" {
			continue
		}
		sp := f.spec(a)
		if sp == nil || len(sp.Raw) > 0 {
			continue
		}
		ctx := f.sessCtx(a)
		tr := transportOf(ac.St)
		closes := w.evs(a, "close")
		// bounded time
		dl := ac.T + bound + time.Second
		if len(closes) == 0 && len(w.evs(a, "close-before-attach")) > 0 {
			continue // Close raced the application's own listener registration: the session closed, nobody was listening yet
		}
		if len(closes) == 0 {
			if simEnd(w) > dl {
				l.add("close-in-bounded-time", tr, fmt.Sprintf("%s [%s]: Close(false) at %v but the session was still not closed at %v (bound %v)", a, ctx, ac.T, simEnd(w), bound))
			}
			continue
		}
		ce := closes[0]
		if ce.T > dl {
			l.add("close-in-bounded-time", tr, fmt.Sprintf("%s [%s]: Close(false) at %v, session closed only at %v (bound %v)", a, ctx, ac.T, ce.T, bound))
		}
		// which other causes were around? only judge the reason when the application's close is the only cause
		armed := f.armedCauses(w, a, ce.Seq)
		onlyApp := len(armed) == 1 && armed["forced close"]
		if onlyApp && ce.S != "forced close" {
			l.add("reason-forced-close", ce.S+"/"+tr, fmt.Sprintf("%s [%s]: graceful close ended with reason %q", a, ctx, ce.S))
		} else if !onlyApp && ce.S != "forced close" && !armed[ce.S] {
			// other causes were around (a silent client arms the heartbeat), but not the one reported
			l.add("reason-forced-close", ce.S+"/"+tr, fmt.Sprintf("%s [%s]: graceful close ended with reason %q although the causes present were only %v", a, ctx, ce.S, sortedKeys(armed)))
		}
		// buffered packets first: every message created before the close call reaches a client that keeps reading
		clientOK := sp.StopAtMs == 0 && sp.CloseAtMs == 0 && len(sp.Faults) == 0 && len(sp.Cand) == 0
		// a discarding close (Close(true), a shutdown) between the graceful close and its completion throws the buffer away,
		// as it is meant to
		for _, e := range w.Evs {
			if e.Seq > ac.Seq && e.Seq < ce.Seq && (e.Kind == "app-server-close" || e.Kind == "app-http-close" ||
				(e.Sess == a && (e.Kind == "app-close" || e.Kind == "reent-call") && strings.Contains(e.S, "discard"))) {
				clientOK = false
			}
		}
		gone := w.evs(a, "c-gone")
		// (a client whose own request - a heartbeat sent in the instant of the close - was refused because the session
		// had just closed gives up there and then, as real clients do: it did not keep reading, whatever the response
		// that was on its way to it carries)
		gaveUp := len(gone) > 0 && (strings.HasPrefix(gone[0].S, "post status") || strings.HasPrefix(gone[0].S, "poll status"))
		if clientOK && (len(gone) == 0 || gone[0].Seq > ce.Seq || strings.HasPrefix(gone[0].S, "server sent close") || strings.HasPrefix(gone[0].S, "stream closed")) && onlyApp {
			recv := map[string]bool{}
			for _, e := range w.evs(a, "c-recv") {
				recv[e.S] = true
			}
			if gaveUp {
				// what the server had written into a poll response before the client gave up was delivered as far as the
				// server is concerned; a response still unwritten at that moment was not
				for _, r := range w.resps {
					if r.Client != a || r.Method != "GET" || r.Status != 200 || r.SeqWH == 0 || r.SeqWH > gone[0].Seq {
						continue
					}
					if ps, err := decodePollBody(eioOf(sp), sp.JSONP, r.H.Get("Content-Type"), decodedBody(r)); err == nil {
						for _, pk := range ps {
							if k := packetKey(pk); strings.HasPrefix(k, "message|") {
								recv[strings.TrimPrefix(k, "message|")] = true
							}
						}
					}
				}
			}
			// "accepted before the close": the Send had returned when Close was called.  A Send still in progress in
			// another goroutine when Close is called may as well count as coming after it (and is then discarded)
			returned := map[string]bool{}
			w.mu.Lock()
			for _, m := range w.sent[a] {
				if m.SeqRet != 0 && m.SeqRet < ac.Seq {
					returned[kindPrefix(m.Binary)+string(m.Data)] = true
				}
			}
			w.mu.Unlock()
			for _, e := range w.evs(a, "packetCreate") {
				if e.Seq > ac.Seq || !strings.HasPrefix(e.S, "message|") {
					continue
				}
				p := strings.TrimPrefix(e.S, "message|")
				if !returned[p] {
					continue
				}
				if strings.HasPrefix(p, "t-reader") {
					continue
				}
				if !recv[p] && ac.T < f.endAt-300*time.Millisecond {
					// the transport on which the batch was lost is the one the session was on when it closed (an
					// upgrade may have completed between the Close call and the close)
					if t2 := transportOf(ce.St); t2 != "" && t2 != "-" {
						tr = t2
					}
					l.add("buffered-data-before-close", tr, fmt.Sprintf("%s [%s]: message %q was accepted before Close(false) but the client, which kept reading, never received it (close reason %q)", a, ctx, clip(p, 40), ce.S))
					break
				}
			}
		}
	}
	// whenever a session closes its pending poll is released with a close or noop packet
	sidAlias := map[string]string{}
	for a, s := range w.SockIDs {
		sidAlias[s] = a
	}
	for _, r := range w.resps {
		if r.Method != "GET" || r.Hijacked || r.h3 != nil || (r.Aborted && !r.WindUp) || r.Client == "prober" {
			continue
		}
		sid, ok := pollingReq(r)
		a := sidAlias[sid]
		if !ok || a == "" || a != r.Client {
			continue
		}
		closes := w.evs(a, "close")
		if len(closes) == 0 {
			continue
		}
		ce := closes[0]
		if r.WindUp && (ce.Seq >= drainSeqOf(w) || drainTimeOf(w)-ce.T < 100*time.Millisecond) {
			continue // still pending when the run was wound up, and the session had not closed (well) before that
		}
		start := reqSeq(w, r)
		answeredBefore := r.SeqWH != 0 && r.SeqWH < ce.Seq
		if start > ce.Seq || answeredBefore {
			continue
		}
		if ce.Seq-start < 40 {
			continue // the poll arrived while the close was already under way: not "pending"
		}
		// a batch handed to the transport before the close is this poll's answer: it was not pending any more
		handedOver := false
		// (the session-level 'flush' event comes first: a listener of it that closes the session does so in the
		// middle of this very hand-over)
		for _, fe := range w.evs(a, "srv-flush", "flush") {
			if fe.Seq > start && fe.Seq < ce.Seq && transportOf(fe.St) == "polling" {
				handedOver = true
			}
		}
		// the poll was pending when the session closed
		sp := f.spec(a)
		if sp == nil || len(sp.Raw) > 0 {
			continue
		}
		if r.NWH == 0 {
			if f.drained {
				l.add("pending-poll-released", "never/"+ce.S, fmt.Sprintf("%s: poll #%d pending at close (%s) was never answered", a, r.ID, ce.S))
			}
			continue
		}
		if r.Status != 200 {
			if ce.S == "transport error" {
				continue // e.g. the overlapping request itself
			}
			l.add("pending-poll-released", fmt.Sprintf("status-%d/%s", r.Status, ce.S), fmt.Sprintf("%s: poll #%d pending at close (%s) was answered with status %d", a, r.ID, ce.S, r.Status))
			continue
		}
		ps, err := decodePollBody(eioOf(sp), sp.JSONP, r.H.Get("Content-Type"), decodedBody(r))
		if err != nil || len(ps) == 0 {
			continue // C16 reports undecodable bodies
		}
		last := ps[len(ps)-1]
		if last.Type != ref.Close && last.Type != ref.Noop && !handedOver {
			// a data batch that was already on its way is fine as long as the client learns
			// about the close later; flag only if nothing tells the client
			l.add("pending-poll-released", "data-only/"+ce.S, fmt.Sprintf("%s: poll #%d pending at close (%s) was released with %d packet(s), the last of type %d, neither close nor noop", a, r.ID, ce.S, len(ps), last.Type))
		}
	}
	// shutdown closes every session exactly once and empties the table
	for _, sd := range w.evs("", "app-server-close-ret", "app-http-close-ret") {
		// the sessions that existed when the shutdown was *invoked*: a handshake racing with the shutdown may
		// be registered after the server walked its client table (nothing says new sessions are refused)
		invSeq := sd.Seq
		for _, e := range w.evs("", "app-server-close", "app-http-close") {
			if e.Seq < sd.Seq {
				invSeq = e.Seq
			}
		}
		opened := map[string]bool{}
		for _, e := range w.Evs {
			if e.Seq > invSeq {
				break
			}
			if e.Kind == "connection" {
				opened[e.Sess] = true
			}
		}
		for _, a := range sortedKeys(opened) {
			n := 0
			late := false
			for _, e := range w.closesOf(a) {
				n++
				if e.T > sd.T {
					late = true
				}
			}
			if n == 0 {
				l.add("shutdown-closes-every-session", "", fmt.Sprintf("%s: still open after server shutdown returned at %v", a, sd.T))
			} else if n > 1 {
				l.add("shutdown-one-close-each", "", fmt.Sprintf("%s: %d close events around shutdown", a, n))
			} else if late {
				l.add("shutdown-closes-every-session", "late", fmt.Sprintf("%s: closed only after shutdown had returned", a))
			}
		}
	}
	for _, e := range w.evs("", "registry-after-shutdown") {
		// sessions that were announced before the shutdown call must be gone; a handshake
		// racing with (or following) the call is a new session the statement does not cover
		shutSeq := 0
		for _, sd := range w.evs("", "app-server-close", "app-http-close") {
			if shutSeq == 0 {
				shutSeq = sd.Seq
			}
		}
		var left []string
		for _, sid := range e.P {
			for _, ce := range w.Evs {
				if ce.Kind == "connection" && ce.S == sid && ce.Seq < shutSeq {
					left = append(left, sid)
				}
			}
		}
		if len(left) > 0 {
			l.add("shutdown-empties-table", "", fmt.Sprintf("after shutdown Clients() still holds %v (ClientsCount()=%d)", left, uint64(e.N)))
		}
	}
	return l.out
}

func eioOf(sp *ClientSpec) int {
	if sp.EIO == 4 {
		return 4
	}
	return 3
}

// decodedBody undoes the content coding (C16 checks the coding itself).
func decodedBody(r *Resp) []byte {
	body := r.Body
	if ce := r.H.Get("Content-Encoding"); ce != "" {
		if b, err := ref.DecodeContent(ce, body); err == nil {
			return b
		}
		if b, ok := ref.IsRawDeflate(body); ok {
			return b
		}
	}
	return body
}

func drainSeqOf(w *World) int {
	for _, e := range w.evs("", "drain-start") {
		return e.Seq
	}
	return 1 << 30
}

func drainTimeOf(w *World) time.Duration {
	for _, e := range w.evs("", "drain-start") {
		return e.T
	}
	return time.Duration(1<<62 - 1)
}
