package sim

import (
	"strings"
	"testing"

	"github.com/zishang520/engine.io/v2/simrt"
)

func wtSmokeScenario(pol simrt.PolicySpec) *Scenario {
	return &Scenario{Family: "session", Seed: 1, HorizonMs: 1500,
		Opts: OptSpec{PingIntervalMs: 300, PingTimeoutMs: 200, Transports: []string{"polling", "websocket", "webtransport"},
			AllowUpgrades: true, CompThreshold: -1},
		Clients: []ClientSpec{
			{Name: "c1", Transport: "webtransport", EIO: 4, Sends: []ClientMsg{{AtMs: 50, ID: "c1.u0", Size: 20}}},
			{Name: "c2", Transport: "polling", EIO: 4, Upgrade: "webtransport", UpgradeAtMs: 100},
		},
		App: []AppOp{
			{AtMs: 120, Task: "s1", Op: "send", Sess: "c1", ID: "c1.s1.0", Size: 30},
			{AtMs: 400, Task: "s1", Op: "send", Sess: "c2", ID: "c2.s1.0", Size: 5000},
		},
		Policy: pol}
}

func wtSmokeCheck(t *testing.T, res *Result) {
	t.Helper()
	find := func(sess, kind string, pred func(e Ev) bool) *Ev {
		for i := range res.Evs {
			e := &res.Evs[i]
			if e.Sess == sess && e.Kind == kind && (pred == nil || pred(*e)) {
				return e
			}
		}
		return nil
	}
	bad := func(f string, a ...any) {
		t.Helper()
		t.Errorf(f, a...)
	}
	for _, c := range []string{"c1", "c2"} {
		if find(c, "c-open", nil) == nil {
			bad("%s: no c-open", c)
		}
		if find(c, "connection", nil) == nil {
			bad("%s: no connection event", c)
		}
		if find(c, "close", nil) == nil {
			bad("%s: session did not close after the clients vanished", c)
		}
	}
	want := "t:" + string(payloadFor("c1.u0", 20))
	if find("c1", "message", func(e Ev) bool { return e.S == want }) == nil {
		bad("c1: server did not get message %q", want)
	}
	want1 := "t:" + string(payloadFor("c1.s1.0", 30))
	if find("c1", "c-recv", func(e Ev) bool { return e.S == want1 && len(e.P) == 1 && e.P[0] == "webtransport" }) == nil {
		bad("c1: did not receive %q over webtransport", want1)
	}
	up := find("c2", "c-upgraded", func(e Ev) bool { return e.S == "webtransport" })
	if up == nil {
		bad("c2: no c-upgraded")
	} else {
		full := "t:" + string(payloadFor("c2.s1.0", 5000))
		got := find("c2", "c-recv", func(e Ev) bool {
			return strings.HasPrefix(e.S, "t:c2.s1.0:") && e.Seq > up.Seq && len(e.P) == 1 && e.P[0] == "webtransport"
		})
		if got == nil {
			bad("c2: did not receive c2.s1.0 over webtransport after the upgrade")
		} else if got.S != full {
			// behaviour of the code under test, not of the fakes: reported, not fatal here
			t.Logf("NOTE c2: 5000-byte message arrived as %d bytes in the first frame (message split into several WT frames)", len(got.S)-2)
		}
	}
	if find("c1", "heartbeat", nil) == nil {
		bad("c1: no heartbeat over webtransport")
	}
	if find("c2", "upgrade", func(e Ev) bool { return e.S == "webtransport" }) == nil {
		bad("c2: server did not emit upgrade(webtransport)")
	}
	if len(res.Alive) != 0 {
		bad("tasks alive at the end: %v", res.Alive)
	}
	if res.Leftover {
		bad("goroutines left in the bubble")
	}
	if len(res.Fail) != 0 {
		bad("runtime failures: %+v", res.Fail)
	}
	if res.Outcome != "stop" {
		bad("outcome %q", res.Outcome)
	}
}

func TestWTSmoke(t *testing.T) {
	for _, pol := range []simrt.PolicySpec{{Kind: "fifo", Seed: 1}, {Kind: "rw", P: 0.02, Seed: 7}} {
		t.Run(pol.Kind, func(t *testing.T) {
			var th, eh uint64
			var first []string
			for i := 0; i < 5; i++ {
				sc := wtSmokeScenario(pol)
				resetIDCounter()
				res := RunScenario(t, sc, simrt.NewPolicy(sc.Policy), false)
				if i == 0 {
					if testing.Verbose() {
						for _, l := range excerpt(res.Evs, "", 1000) {
							t.Log(l)
						}
						for _, v := range res.Viol {
							t.Logf("VIOLATION %s %s: %s", v.Prop, v.Sig, v.Msg)
						}
					}
					t.Logf("outcome=%s steps=%d yields=%d events=%d virtual=%dms alive=%v leftover=%v trace=%x events=%x", res.Outcome, res.Steps, res.Yields, res.NEvents, res.VirtualMs, res.Alive, res.Leftover, res.TraceHash, res.EventHash)
					wtSmokeCheck(t, res)
					th, eh = res.TraceHash, res.EventHash
					first = excerpt(res.Evs, "", 100000)
					continue
				}
				if res.TraceHash != th || res.EventHash != eh {
					t.Errorf("run %d not deterministic: trace %x/%x events %x/%x", i, res.TraceHash, th, res.EventHash, eh)
					for j, l := range excerpt(res.Evs, "", 100000) {
						if j >= len(first) || first[j] != l {
							t.Logf("first difference at event %d:\n  run 0: %s\n  run %d: %s", j+1, at(first, j), i, l)
							break
						}
					}
				}
			}
		})
	}
}

func at(l []string, i int) string {
	if i < len(l) {
		return l[i]
	}
	return "<none>"
}

// wtFaultScenario exercises the teardown paths of the fakes: reset, orderly
// client close, EOF after an upgrade, server-side close, upgrade timeout,
// garbage / partial / unknown-sid handshakes, refusal before the upgrade.
func wtFaultScenario(pol simrt.PolicySpec, deny bool) *Scenario {
	frame := func(s string) []byte { return append([]byte{byte(len(s))}, s...) }
	sc := &Scenario{Family: "session", Seed: 3, HorizonMs: 1200,
		Opts: OptSpec{PingIntervalMs: 300, PingTimeoutMs: 200, UpgradeTimeoutMs: 250, Transports: []string{"polling", "websocket", "webtransport"},
			AllowUpgrades: true, CompThreshold: -1},
		Clients: []ClientSpec{
			{Name: "c1", Transport: "webtransport", EIO: 4, Frag: []int{1, 2, 3}, Sends: []ClientMsg{{AtMs: 20, ID: "c1.u0", Size: 300}},
				Faults: []FaultSpec{{AtMs: 200, Kind: "reset"}}},
			{Name: "c2", Transport: "webtransport", EIO: 4, CloseAtMs: 250, Sends: []ClientMsg{{AtMs: 30, ID: "c2.u0", Size: 10, Binary: true}}},
			{Name: "c3", Transport: "polling", EIO: 4, Upgrade: "webtransport", UpgradeAtMs: 100, Faults: []FaultSpec{{AtMs: 450, Kind: "eof"}}},
			{Name: "c4", Raw: []RawOp{{Op: "wt-open"}, {AtMs: 600, Op: "wait"}}},
			{Name: "c5", Raw: []RawOp{{Op: "wt-open", Bytes: frame("hello")}, {AtMs: 100, Op: "wt-raw", Bytes: frame("4x")}}},
			{Name: "c6", Raw: []RawOp{{Op: "wt-open", Bytes: frame(`0{"sid":"nosuchsession"}`)}, {AtMs: 100, Op: "wt-raw", Bytes: frame("2probe")}}},
			{Name: "c7", Raw: []RawOp{{Op: "wt-open", Bytes: []byte{10, '0', '{', '"'}}, {AtMs: 50, Op: "wt-close"}}},
			{Name: "c8", Transport: "webtransport", EIO: 4},
			{Name: "c9", Raw: []RawOp{{Op: "wt-open", Bytes: frame("0")}, {AtMs: 50, Op: "wt-raw", Bytes: frame("4raw-hello")}, {AtMs: 50, Op: "ws-reset"}}},
		},
		App: []AppOp{
			{AtMs: 150, Task: "s1", Op: "send", Sess: "c8", ID: "c8.s1.0", Size: 100, Binary: true},
			{AtMs: 300, Task: "s1", Op: "close", Sess: "c8"},
		},
		Policy: pol}
	for i := range sc.Clients {
		sc.Clients[i].EIO = 4
	}
	if deny {
		sc.Opts.AllowRequest = "deny:go away"
	}
	return sc
}

func TestWTFaults(t *testing.T) {
	for _, deny := range []bool{false, true} {
		for _, pol := range []simrt.PolicySpec{{Kind: "fifo", Seed: 1}, {Kind: "rw", P: 0.02, Seed: 7}, {Kind: "rw", P: 0.1, Seed: 11}} {
			name := pol.Kind
			if deny {
				name += "-deny"
			}
			t.Run(name, func(t *testing.T) {
				var th, eh uint64
				for i := 0; i < 3; i++ {
					sc := wtFaultScenario(pol, deny)
					resetIDCounter()
					res := RunScenario(t, sc, simrt.NewPolicy(sc.Policy), false)
					if i > 0 {
						if res.TraceHash != th || res.EventHash != eh {
							t.Errorf("run %d not deterministic: trace %x/%x events %x/%x", i, res.TraceHash, th, res.EventHash, eh)
						}
						continue
					}
					th, eh = res.TraceHash, res.EventHash
					if testing.Verbose() {
						for _, l := range excerpt(res.Evs, "", 2000) {
							t.Log(l)
						}
						for _, v := range res.Viol {
							t.Logf("VIOLATION %s %s: %s", v.Prop, v.Sig, v.Msg)
						}
					}
					t.Logf("outcome=%s steps=%d yields=%d events=%d alive=%v leftover=%v faults=%v trace=%x events=%x", res.Outcome, res.Steps, res.Yields, res.NEvents, res.Alive, res.Leftover, res.Faults, res.TraceHash, res.EventHash)
					if len(res.Alive) != 0 || res.Leftover || len(res.Fail) != 0 || res.Outcome != "stop" {
						t.Errorf("alive=%v leftover=%v fail=%+v outcome=%s", res.Alive, res.Leftover, res.Fail, res.Outcome)
					}
					n := 0
					for _, e := range res.Evs {
						if e.Kind == "connection" {
							n++
						}
					}
					if deny && n != 0 {
						t.Errorf("deny: %d connection events", n)
					}
					if !deny && n < 5 {
						t.Errorf("only %d connection events", n)
					}
				}
			})
		}
	}
}
