package sim

import (
	"regexp"

	"github.com/zishang520/engine.io/v2/config"
	"github.com/zishang520/engine.io/v2/simrt"
	"github.com/zishang520/engine.io/v2/types"
)

// Scenario is a fully materialised simulated run: it is generated from a seed
// once, stored verbatim in replay files and shrunk by the minimiser.  Nothing
// in it is re-drawn at run time.
type Scenario struct {
	Family    string           `json:"family"` // session | timers | wtframe | cont | adm
	Prop      string           `json:"prop"`   // property the generator was biased for
	Seed      uint64           `json:"seed"`   // session ids, stream fragmentation
	Opts      OptSpec          `json:"opts"`
	Attach    *AttachSpec      `json:"attach,omitempty"`
	HorizonMs int              `json:"horizonMs"`
	MaxSteps  int              `json:"maxSteps"`
	Clients   []ClientSpec     `json:"clients,omitempty"`
	App       []AppOp          `json:"app,omitempty"`
	Reent     []ReentSpec      `json:"reent,omitempty"`
	Policy    simrt.PolicySpec `json:"policy"`
	HotFuncs  []string         `json:"hot,omitempty"` // function names whose sites are hot for the site policy
	FaultFree bool             `json:"faultFree"`     // generator promise: no fault, no close cause, conformant clients only
	Timers    *TimerScen       `json:"timers,omitempty"`
	WT        *WTScen          `json:"wt,omitempty"`
	Cont      *ContScen        `json:"cont,omitempty"`
	Adm       *AdmScen         `json:"adm,omitempty"`
}

type AttachSpec struct {
	UseHttpServer bool    `json:"hs"`
	NoOptions     bool    `json:"noopts,omitempty"`     // Attach(server, nil)
	ServerOnly    bool    `json:"serverOnly,omitempty"` // options object that is only a ServerOptions (no attach part)
	Path          *string `json:"path,omitempty"`
	TrailingSlash *bool   `json:"slash,omitempty"`
}

type attachBoth struct {
	config.ServerOptionsInterface
	config.AttachOptionsInterface
}

// build returns the `any` handed to engine.Attach.
func (a *AttachSpec) build(so *config.ServerOptions) any {
	if a.NoOptions {
		return nil
	}
	if a.ServerOnly {
		return so
	}
	ao := config.DefaultAttachOptions()
	if a.Path != nil {
		ao.SetPath(*a.Path)
	}
	if a.TrailingSlash != nil {
		ao.SetAddTrailingSlash(*a.TrailingSlash)
	}
	return &attachBoth{so, ao}
}

type CorsSpec struct {
	OriginKind  string   `json:"originKind"` // star | string | list | regexp | true | false | nil
	Origin      string   `json:"origin,omitempty"`
	Origins     []string `json:"origins,omitempty"`
	Credentials bool     `json:"cred,omitempty"`
	Methods     []string `json:"methods,omitempty"`
	MethodsStr  string   `json:"methodsStr,omitempty"`
	Headers     []string `json:"headers,omitempty"`
	HeadersStr  string   `json:"headersStr,omitempty"`
	Exposed     string   `json:"exposed,omitempty"`
	MaxAge      string   `json:"maxAge,omitempty"`
	Continue    bool     `json:"continue,omitempty"`
	Status      int      `json:"status,omitempty"`
}

func (c *CorsSpec) build() *types.Cors {
	o := &types.Cors{Credentials: c.Credentials, PreflightContinue: c.Continue, OptionsSuccessStatus: c.Status, MaxAge: c.MaxAge}
	switch c.OriginKind {
	case "star":
		o.Origin = "*"
	case "string":
		o.Origin = c.Origin
	case "list":
		var l []any
		for _, x := range c.Origins {
			l = append(l, x)
		}
		o.Origin = l
	case "regexp":
		o.Origin = regexp.MustCompile(c.Origin)
	case "true":
		o.Origin = true
	case "false":
		o.Origin = false
	}
	if c.MethodsStr != "" {
		o.Methods = c.MethodsStr
	} else if len(c.Methods) > 0 {
		o.Methods = c.Methods
	}
	if c.HeadersStr != "" {
		o.AllowedHeaders = c.HeadersStr
	} else if len(c.Headers) > 0 {
		o.AllowedHeaders = c.Headers
	}
	if c.Exposed != "" {
		o.ExposedHeaders = c.Exposed
	}
	return o
}

// ClientSpec is a protocol-conformant client with knobs and a fault plan, or
// (Raw != nil) a scripted raw client.
type ClientSpec struct {
	Name          string      `json:"name"`
	StartMs       int         `json:"start"`
	Transport     string      `json:"transport"` // polling | websocket | webtransport
	EIO           int         `json:"eio"`
	B64           bool        `json:"b64,omitempty"`
	JSONP         bool        `json:"jsonp,omitempty"`
	J             string      `json:"j,omitempty"`
	Upgrade       string      `json:"upgrade,omitempty"` // "", websocket, webtransport
	UpgradeAtMs   int         `json:"upgradeAt,omitempty"`
	Sends         []ClientMsg `json:"sends,omitempty"`
	PongDelayMs   []int       `json:"pong,omitempty"` // per ping (cyclic); <0: never answer
	V3PingMs      int         `json:"v3ping,omitempty"`
	StopAtMs      int         `json:"stopAt,omitempty"`     // >0: complete silence from then on (partition)
	CloseAtMs     int         `json:"closeAt,omitempty"`    // >0: orderly client close (close packet / close frame)
	CloseTrail    int         `json:"closeTrail,omitempty"` // polling: that many message packets follow the close packet in the same payload
	Faults        []FaultSpec `json:"faults,omitempty"`
	AcceptEnc     string      `json:"ae,omitempty"`
	AcceptEncPost string      `json:"aePost,omitempty"` // Accept-Encoding of the data requests, when it differs from the polls'
	Origin        string      `json:"origin,omitempty"`
	LatencyMs     int         `json:"lat,omitempty"`  // request/frame latency
	Frag          []int       `json:"frag,omitempty"` // stream read fragmentation pattern
	UA            string      `json:"ua,omitempty"`
	Path          string      `json:"path,omitempty"`
	PollGapMs     int         `json:"pollGap,omitempty"` // think time between polls
	Raw           []RawOp     `json:"raw,omitempty"`
	Canary        bool        `json:"canary,omitempty"`
	Cand          []CandOp    `json:"cand,omitempty"` // non-conformant upgrade candidate script (C08)
	CandAtMs      int         `json:"candAt,omitempty"`
	CandKind      string      `json:"candKind,omitempty"`
	NoCL          bool        `json:"nocl,omitempty"`           // data requests without Content-Length (chunked transfer)
	AbortHS       bool        `json:"abortHandshake,omitempty"` // the client gives up while its handshake request is being served
	RecvWindow    int         `json:"recvWindow,omitempty"`     // WebSocket: once the client has gone silent it also stops reading; the server's writes stall when that many bytes are unread
	WriteDelayMs  int         `json:"writeDelay,omitempty"`     // WebSocket: every write of the server to this client's connections takes that long (slow link)
	EarlyWS       bool        `json:"earlyWS,omitempty"`        // WebSocket: the client goes ahead as soon as the 101 is on the wire, while the server's handler is still at work
	Retry         bool        `json:"retry,omitempty"`          // after a failed candidate, try a conformant upgrade later
	RetryAtMs     int         `json:"retryAt,omitempty"`
}

type ClientMsg struct {
	AtMs   int    `json:"at"`
	ID     string `json:"id"`
	Size   int    `json:"size"`
	Binary bool   `json:"bin,omitempty"`
	Text   string `json:"text,omitempty"`  // explicit payload (overrides ID/Size padding)
	Chars  string `json:"chars,omitempty"` // padding character class (payloadForC)
}

type FaultSpec struct {
	AtMs int    `json:"at"`
	Kind string `json:"kind"` // abort-poll | abort-post | reset | eof | dup-poll | dup-post | silence | bad-packet | wrong-heartbeat | ws-error-frame | extra-pong
	Arg  int    `json:"arg,omitempty"`
}

// CandOp is one step of an upgrade candidate's script.
type CandOp struct {
	Op     string `json:"op"` // probe | ping | pong | msg | upgrade | noop | garbage | close | disconnect | wait | waitpong
	Arg    string `json:"arg,omitempty"`
	WaitMs int    `json:"wait,omitempty"`
}

// RawOp is one step of a raw (possibly hostile) client script.
type RawOp struct {
	AtMs      int               `json:"at,omitempty"` // delay before the op
	Op        string            `json:"op"`           // http | ws-open | ws-frame | ws-raw | ws-close | wt-open | wt-raw | wt-close | abort | wait
	Method    string            `json:"method,omitempty"`
	Path      string            `json:"path,omitempty"`
	Query     string            `json:"query,omitempty"`
	UseSid    bool              `json:"useSid,omitempty"` // append &sid=<sid learned from the first open packet>
	SidOf     string            `json:"sidOf,omitempty"`  // append &sid=<session id of that client alias> (live or closed)
	Expect    string            `json:"expect,omitempty"` // generator's note for humans
	Hdr       map[string]string `json:"hdr,omitempty"`
	Body      []byte            `json:"body,omitempty"`
	BodyGen   int64             `json:"bodyGen,omitempty"`
	NoCL      bool              `json:"nocl,omitempty"`
	BodyErrAt int64             `json:"bodyErrAt,omitempty"` // reading the request body fails after that many bytes minus one (the connection stays)
	Async     bool              `json:"async,omitempty"`     // do not wait for the response before the next op
	Frame     *RawFrame         `json:"frame,omitempty"`
	Bytes     []byte            `json:"bytes,omitempty"`
	Conn      int               `json:"conn,omitempty"` // which ws/wt connection of this client
}

type RawFrame struct {
	Op      byte   `json:"op"`
	Fin     bool   `json:"fin"`
	Payload []byte `json:"payload,omitempty"`
	GenLen  int    `json:"genLen,omitempty"`
}

// AppOp is one action of the application.
type AppOp struct {
	AtMs     int    `json:"at"`
	Task     string `json:"task"` // sender task name (ops of one task run in order)
	Op       string `json:"op"`   // send | close | close-discard | server-close | http-close
	Sess     string `json:"sess,omitempty"`
	ID       string `json:"id,omitempty"`
	Size     int    `json:"size,omitempty"`
	Binary   bool   `json:"bin,omitempty"`
	Opt      string `json:"opt,omitempty"` // "", nocompress, preencoded
	CB       bool   `json:"cb,omitempty"`
	UseWrite bool   `json:"write,omitempty"`
	Chars    string `json:"chars,omitempty"`  // padding character class (payloadForC); text messages only
	SlowMs   int    `json:"slowMs,omitempty"` // binary messages only: the data is handed over as an io.Reader whose first Read takes that long
}

// ReentSpec makes a listener call back into the session (C18).
type ReentSpec struct {
	Event string `json:"event"` // session event, "srv-flush"/"srv-drain", or "callback"
	Call  string `json:"call"`  // send | close | close-discard | sleep (a listener that takes Ms of virtual time)
	Ms    int    `json:"ms,omitempty"`
	Then  string `json:"then,omitempty"` // sleep only: when the listener wakes, another application task calls close | close-discard at that very instant
	Sess  string `json:"sess,omitempty"`
	Nth   int    `json:"nth"` // fire on the nth occurrence (1-based)
}
