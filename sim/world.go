package sim

import (
	"bytes"
	"crypto/rand"
	"fmt"
	"io"
	mrand "math/rand/v2"
	"net/http"
	"sort"
	"strings"
	"sync"
	"time"

	"github.com/zishang520/engine.io-go-parser/packet"
	"github.com/zishang520/engine.io/v2/config"
	"github.com/zishang520/engine.io/v2/engine"
	"github.com/zishang520/engine.io/v2/simrt"
	"github.com/zishang520/engine.io/v2/types"
	"github.com/zishang520/engine.io/v2/utils"
)

// Ev is one entry of the recorded history.  Seq is the global event number:
// concurrent operations are ordered by it, never by coarse virtual time.
type Ev struct {
	Seq  int           `json:"seq"`
	T    time.Duration `json:"t"`
	Sess string        `json:"sess,omitempty"` // client alias the event belongs to
	Kind string        `json:"kind"`
	S    string        `json:"s,omitempty"`
	N    int64         `json:"n,omitempty"`
	St   string        `json:"st,omitempty"` // sampled socket state "ready/transport/upgrading/upgraded"
	P    []string      `json:"p,omitempty"`
}

// OptSpec is the serialisable server configuration of a scenario.
type OptSpec struct {
	PingIntervalMs   int      `json:"pi"`
	PingTimeoutMs    int      `json:"pt"`
	UpgradeTimeoutMs int      `json:"ut"`
	MaxBuf           int64    `json:"maxbuf"`
	Transports       []string `json:"transports"`
	AllowUpgrades    bool     `json:"allowUpgrades"`
	AllowEIO3        bool     `json:"eio3"`
	NoCompression    bool     `json:"nocomp,omitempty"`
	CompThreshold    int      `json:"compthr"`
	PMD              bool     `json:"pmd,omitempty"` // per-message deflate on
	PMDThreshold     int      `json:"pmdthr,omitempty"`
	InitialPacket    string   `json:"initial,omitempty"`
	// Primer: before the server under observation is built, another server with these transports lives in the
	// same process and serves one polling handshake (servers must not share what they advertise)
	Primer         []string    `json:"primer,omitempty"`
	Cookie         *CookieSpec `json:"cookie,omitempty"`
	Cors           *CorsSpec   `json:"cors,omitempty"`
	AllowRequest   string      `json:"allowRequest,omitempty"` // "", "ok", "deny:<text>", "deny-origin:<origin>"
	AppCookie      bool        `json:"appCookie,omitempty"`    // the application's initial_headers listener adds a Set-Cookie of its own
	AllowSlowMs    int         `json:"allowSlowMs,omitempty"`  // the allow-request hook takes that long to decide (a lookup in a database)
	FailMiddleware bool        `json:"failMw,omitempty"`
}

type CookieSpec struct {
	Name     string `json:"name,omitempty"`
	Path     string `json:"path,omitempty"`
	MaxAge   int    `json:"maxAge,omitempty"`
	HttpOnly bool   `json:"httpOnly,omitempty"`
	Secure   bool   `json:"secure,omitempty"`
	SameSite int    `json:"sameSite,omitempty"`
	Domain   string `json:"domain,omitempty"`
}

// World is one simulated deployment: server + network + recorder.
type World struct {
	Sc  *Scenario
	S   *simrt.Sched
	Srv engine.Server
	HS  *types.HttpServer
	H   http.Handler // entry point for requests

	mu      sync.Mutex
	Evs     []Ev
	reqSeq  int
	resps   []*Resp
	Faults  map[string]int
	Probes  map[string]int
	clients map[string]*ClientState  // by alias
	byAddr  map[string]string        // remote addr -> alias
	Socks   map[string]engine.Socket // alias -> socket
	SockIDs map[string]string        // alias -> sid
	AllIDs  []string
	appHits int
	Viol    []Violation // online violations
	stop    bool
	end     time.Duration
	// per-alias outbound bookkeeping
	sent map[string][]SentMsg
	// abstract states seen at quiescent points
	States map[string]bool
}

// SentMsg is one accepted-or-not application Send.
type SentMsg struct {
	ID     string
	Data   []byte
	Binary bool
	Seq    int // event seq of the Send invoke
	SeqRet int
	Sender string
	CB     bool
	State  string // ready state sampled just before the call
}

// Violation is what an oracle reports.
type Violation struct {
	Prop string `json:"prop"`
	Rule string `json:"rule"` // oracle rule id
	Sig  string `json:"sig"`  // signature: rule + protocol-level discriminating context
	Msg  string `json:"msg"`
	Seq  int    `json:"seq,omitempty"`
}

type ClientState struct {
	Alias string
	Addr  string
}

func newWorld(sc *Scenario, s *simrt.Sched) *World {
	return &World{Sc: sc, S: s, Faults: map[string]int{}, Probes: map[string]int{},
		clients: map[string]*ClientState{}, byAddr: map[string]string{},
		Socks: map[string]engine.Socket{}, SockIDs: map[string]string{},
		sent: map[string][]SentMsg{}, States: map[string]bool{}}
}

func (w *World) clientAddr(alias string) string {
	w.mu.Lock()
	defer w.mu.Unlock()
	c := w.clients[alias]
	if c == nil {
		c = &ClientState{Alias: alias, Addr: fmt.Sprintf("10.0.1.%d:%d", len(w.clients)+2, 40000+len(w.clients))}
		w.clients[alias] = c
		w.byAddr[c.Addr] = alias
	}
	return c.Addr
}

func (w *World) aliasOf(sock engine.Socket) string {
	addr := sock.RemoteAddress() // never call instrumented code while holding w.mu
	w.mu.Lock()
	defer w.mu.Unlock()
	if a, ok := w.byAddr[addr]; ok {
		return a
	}
	return "?" + addr
}

// rec appends to the history and returns the event's seq.
func (w *World) rec(sess, kind, s string, n int64) int {
	return w.recx(Ev{Sess: sess, Kind: kind, S: s, N: n})
}

func (w *World) recx(e Ev) int {
	w.mu.Lock()
	e.Seq = len(w.Evs) + 1
	e.T = simrt.Now()
	w.Evs = append(w.Evs, e)
	w.mu.Unlock()
	return e.Seq
}

func (w *World) fault(kind string) {
	w.mu.Lock()
	w.Faults[kind]++
	w.mu.Unlock()
	w.rec("", "fault", kind, 0)
}

func (w *World) probe(name string) {
	w.mu.Lock()
	w.Probes[name]++
	w.mu.Unlock()
}

func (w *World) violate(prop, rule, sigctx, msg string) {
	w.mu.Lock()
	seq := len(w.Evs)
	sig := rule
	if sigctx != "" {
		sig += "/" + sigctx
	}
	w.Viol = append(w.Viol, Violation{Prop: prop, Rule: rule, Sig: sig, Msg: msg, Seq: seq})
	w.mu.Unlock()
}

func sockState(s engine.Socket) (st string) {
	simrt.Atomic(func() { st = sockStateRaw(s) })
	return st
}

func sockStateRaw(s engine.Socket) string {
	tn := "-"
	if t := s.Transport(); t != nil {
		tn = t.Name()
	}
	u := ""
	if s.Upgrading() {
		u += "U"
	}
	if s.Upgraded() {
		u += "D"
	}
	return s.ReadyState() + "/" + tn + "/" + u
}

// detRand is the seeded replacement for crypto/rand.Reader.
type detRand struct{ r *mrand.ChaCha8 }

func (d *detRand) Read(b []byte) (int, error) { return d.r.Read(b) }

func pinRandom(seed uint64) {
	var k [32]byte
	for i := 0; i < 8; i++ {
		k[i] = byte(seed >> (8 * i))
	}
	k[31] = 0x5a
	rand.Reader = &detRand{mrand.NewChaCha8(k)}
}

func (o *OptSpec) build(w *World) *config.ServerOptions {
	opts := &config.ServerOptions{}
	if o.PingIntervalMs > 0 {
		opts.SetPingInterval(time.Duration(o.PingIntervalMs) * time.Millisecond)
	}
	if o.PingTimeoutMs > 0 {
		opts.SetPingTimeout(time.Duration(o.PingTimeoutMs) * time.Millisecond)
	}
	if o.UpgradeTimeoutMs > 0 {
		opts.SetUpgradeTimeout(time.Duration(o.UpgradeTimeoutMs) * time.Millisecond)
	}
	if o.MaxBuf > 0 {
		opts.SetMaxHttpBufferSize(o.MaxBuf)
	}
	if len(o.Transports) > 0 {
		opts.SetTransports(types.NewSet(o.Transports...))
	}
	opts.SetAllowUpgrades(o.AllowUpgrades)
	opts.SetAllowEIO3(o.AllowEIO3)
	if o.NoCompression {
		// nil disables; config keeps a raw pointer so "unset" means default
		opts.SetHttpCompression(nil)
	} else if o.CompThreshold >= 0 {
		opts.SetHttpCompression(&types.HttpCompression{Threshold: o.CompThreshold})
	}
	if o.PMD {
		opts.SetPerMessageDeflate(&types.PerMessageDeflate{Threshold: o.PMDThreshold})
	}
	if o.InitialPacket != "" {
		opts.SetInitialPacket(strings.NewReader(o.InitialPacket))
	}
	if c := o.Cookie; c != nil {
		opts.SetCookie(&http.Cookie{Name: c.Name, Path: c.Path, MaxAge: c.MaxAge, HttpOnly: c.HttpOnly, Secure: c.Secure, SameSite: http.SameSite(c.SameSite), Domain: c.Domain})
	}
	if o.Cors != nil {
		opts.SetCors(o.Cors.build())
	}
	slow := func() {
		if o.AllowSlowMs > 0 {
			w.probe("slow_allow_request_hook")
			simrt.Sleep(time.Duration(o.AllowSlowMs) * time.Millisecond)
		}
	}
	switch {
	case o.AllowRequest == "ok":
		opts.SetAllowRequest(func(*types.HttpContext) error { w.probe("allow_request_called"); slow(); return nil })
	case strings.HasPrefix(o.AllowRequest, "deny:"):
		txt := strings.TrimPrefix(o.AllowRequest, "deny:")
		opts.SetAllowRequest(func(*types.HttpContext) error { w.probe("allow_request_called"); slow(); return fmt.Errorf("%s", txt) })
	case strings.HasPrefix(o.AllowRequest, "deny-origin:"):
		bad := strings.TrimPrefix(o.AllowRequest, "deny-origin:")
		opts.SetAllowRequest(func(c *types.HttpContext) error {
			w.probe("allow_request_called")
			if c.Headers().Peek("Origin") == bad {
				return fmt.Errorf("origin %s refused", bad)
			}
			return nil
		})
	}
	return opts
}

// startServer builds the engine server and registers recording listeners.  It
// must run inside a task.
func (w *World) startServer(o *OptSpec, att *AttachSpec) {
	if len(o.Primer) > 0 {
		po := &OptSpec{Transports: o.Primer, AllowUpgrades: true, AllowEIO3: true, CompThreshold: -1}
		primer := engine.NewServer(po.build(w))
		r := w.serve(primer, "prober", ReqSpec{Method: "GET", Path: "/engine.io/", Query: "EIO=4&transport=polling"})
		w.recx(Ev{Kind: "primer-handshake", N: int64(r.Status), S: clip(string(r.Body), 120)})
		primer.Close()
		w.probe("primer_server")
	}
	opts := o.build(w)
	if att != nil && att.UseHttpServer {
		w.HS = types.NewWebServer(http.HandlerFunc(func(rw http.ResponseWriter, r *http.Request) {
			w.mu.Lock()
			w.appHits++
			w.mu.Unlock()
			if rr, ok := rw.(interface{ markApp() }); ok {
				rr.markApp()
			}
			rw.Header().Set("X-App", "1")
			rw.WriteHeader(http.StatusTeapot)
			io.WriteString(rw, "app")
		}))
		w.Srv = engine.Attach(w.HS, att.build(opts))
		w.H = w.HS
	} else {
		w.Srv = engine.NewServer(opts)
		w.H = w.Srv
	}
	if o.FailMiddleware {
		w.Srv.Use(func(c *types.HttpContext, next func(error)) { next(fmt.Errorf("middleware says no")) })
	}
	srv := w.Srv
	srv.On("connection", func(a ...any) {
		sock := a[0].(engine.Socket)
		alias := w.aliasOf(sock)
		sid := sock.Id()
		w.mu.Lock()
		w.Socks[alias] = sock
		w.SockIDs[alias] = sid
		w.AllIDs = append(w.AllIDs, sid)
		w.mu.Unlock()
		simrt.Atomic(func() {
			w.recx(Ev{Sess: alias, Kind: "connection", S: sock.Id(), N: int64(sock.Protocol()), St: sockStateRaw(sock)})
		})
		w.attachSocket(alias, sock)
		// listeners registered from here on see everything; events that raced with the registration may be missed
		w.recx(Ev{Sess: alias, Kind: "app-attached"})
		// what a careful application does: the session may have closed while the listeners were being registered
		if sock.ReadyState() == "closed" && len(w.evs(alias, "close")) == 0 {
			w.recx(Ev{Sess: alias, Kind: "close-before-attach", St: sockState(sock)})
		}
		// an application that does something with the session right away (refuses it, greets it, takes its time)
		w.reentrant(alias, sock, "connection")
	})
	srv.On("connection_error", func(a ...any) {
		em, _ := a[0].(*types.ErrorMessage)
		s, alias := "", ""
		var n int64 = -1
		if em != nil && em.CodeMessage != nil {
			s, n = em.CodeMessage.Message, int64(em.CodeMessage.Code)
			if em.Req != nil {
				alias = w.byAddrAlias(em.Req.Request().RemoteAddr)
			}
		}
		w.recx(Ev{Sess: alias, Kind: "connection_error", S: s, N: n})
	})
	srv.On("initial_headers", func(a ...any) {
		ctx, _ := a[1].(*types.HttpContext)
		w.recx(Ev{Sess: w.ctxAlias(ctx), Kind: "initial_headers", S: ctxURL(ctx)})
		if o.AppCookie {
			// what the event exists for: the application adds a header of its own to the handshake response - a
			// sticky-session cookie next to the session cookie
			if h, ok := a[0].(*utils.ParameterBag); ok {
				h.Add("Set-Cookie", "route=node-1; Path=/")
				h.Add("X-Route", "node-1")
				w.probe("application_adds_cookie_in_initial_headers")
			}
		}
	})
	srv.On("headers", func(a ...any) {
		ctx, _ := a[1].(*types.HttpContext)
		w.recx(Ev{Sess: w.ctxAlias(ctx), Kind: "headers", S: ctxURL(ctx)})
	})
	srv.On("flush", func(a ...any) {
		sock := a[0].(engine.Socket)
		w.recx(Ev{Sess: w.aliasOf(sock), Kind: "srv-flush", P: packetStrings(a[1]), St: sockState(sock)})
	})
	srv.On("drain", func(a ...any) {
		sock := a[0].(engine.Socket)
		w.recx(Ev{Sess: w.aliasOf(sock), Kind: "srv-drain", St: sockState(sock)})
	})
}

func ctxURL(c *types.HttpContext) string {
	if c == nil {
		return ""
	}
	return c.Method() + " " + c.Request().URL.RequestURI()
}

func (w *World) byAddrAlias(addr string) string {
	w.mu.Lock()
	defer w.mu.Unlock()
	return w.byAddr[addr]
}

func (w *World) ctxAlias(c *types.HttpContext) string {
	if c == nil {
		return ""
	}
	return w.byAddrAlias(c.Request().RemoteAddr)
}

func packetStrings(v any) []string {
	pk, _ := v.([]*packet.Packet)
	out := make([]string, 0, len(pk))
	for _, p := range pk {
		out = append(out, packetString(p))
	}
	return out
}

// packetString renders a packet for the history without consuming its reader
// when that is possible (packets carry io.Readers that are read once).
func packetString(p *packet.Packet) string {
	if p == nil {
		return "<nil>"
	}
	d := ""
	switch x := p.Data.(type) {
	case nil:
	case *types.StringBuffer:
		d = "t:" + string(x.Bytes())
	case *types.BytesBuffer:
		d = "b:" + string(x.Bytes())
	case *strings.Reader:
		d = fmt.Sprintf("t-reader(%d)", x.Len())
	case *bytes.Reader:
		d = fmt.Sprintf("reader(%d)", x.Len())
	case *bytes.Buffer:
		d = "b:" + string(x.Bytes())
	case *slowReader:
		d = "b:" + string(x.data)
	default:
		d = fmt.Sprintf("%T", x)
	}
	return string(p.Type) + "|" + d
}

// attachSocket registers the recording listeners of the application.
func (w *World) attachSocket(alias string, sock engine.Socket) {
	ev := func(kind string) func(...any) {
		return func(a ...any) {
			simrt.Atomic(func() { w.listenerEvent(alias, kind, sock, a) })
			w.reentrant(alias, sock, kind)
		}
	}
	for _, k := range []string{"packet", "packetCreate", "message", "heartbeat", "upgrading", "upgrade", "flush", "drain", "close", "error"} {
		sock.On(types.EventName(k), ev(k))
	}
}

// listenerEvent samples the session and records the event in one step (called inside simrt.Atomic).
func (w *World) listenerEvent(alias, kind string, sock engine.Socket, a []any) Ev {
	{
		{
			e := Ev{Sess: alias, Kind: kind, St: sockStateRaw(sock)}
			switch kind {
			case "close":
				if len(a) > 0 {
					e.S, _ = a[0].(string)
				}
				if len(a) > 1 && a[1] != nil {
					e.P = []string{fmt.Sprint(a[1])}
				}
			case "packet", "packetCreate":
				if p, ok := a[0].(*packet.Packet); ok {
					e.S = packetString(p)
				}
			case "flush":
				e.P = packetStrings(a[0])
			case "message":
				e.S, e.N = readerString(a[0])
			case "upgrade", "upgrading":
				if t, ok := a[0].(interface{ Name() string }); ok {
					e.S = t.Name()
				}
			}
			w.recx(e)
			return e
		}
	}
}

// readerString returns "t:<text>" / "b:<bytes>" for a message payload.
func readerString(v any) (string, int64) {
	switch x := v.(type) {
	case *types.StringBuffer:
		return "t:" + string(x.Bytes()), int64(x.Len())
	case *types.BytesBuffer:
		return "b:" + string(x.Bytes()), int64(x.Len())
	case types.BufferInterface:
		return "b:" + string(x.Bytes()), int64(x.Len())
	case io.Reader:
		b, _ := io.ReadAll(x)
		return "?:" + string(b), int64(len(b))
	case nil:
		return "nil", 0
	}
	return fmt.Sprintf("%T", v), 0
}

// events of one kind / session
func (w *World) evs(sess string, kinds ...string) []Ev {
	var out []Ev
	for _, e := range w.Evs {
		if sess != "" && e.Sess != sess {
			continue
		}
		for _, k := range kinds {
			if e.Kind == k {
				out = append(out, e)
				break
			}
		}
	}
	return out
}

func sortedKeys[V any](m map[string]V) []string {
	k := make([]string, 0, len(m))
	for x := range m {
		k = append(k, x)
	}
	sort.Strings(k)
	return k
}

// closesOf returns the session's close events; a session that closed while the
// application was still registering its listeners has a close-before-attach
// marker instead (unless the close event itself arrived after all).
func (w *World) closesOf(a string) []Ev {
	if c := w.evs(a, "close"); len(c) > 0 {
		return c
	}
	return w.evs(a, "close-before-attach")
}
