package sim

import (
	"bytes"
	"fmt"
	"io"
	"sort"
	"strings"
	"time"

	"github.com/zishang520/engine.io-go-parser/packet"
	"github.com/zishang520/engine.io/v2/engine"
	"github.com/zishang520/engine.io/v2/simrt"
	"github.com/zishang520/engine.io/v2/transports"
	"github.com/zishang520/engine.io/v2/types"
)

// runApp spawns one task per application sender; ops of one task run in order
// at their virtual instants.
func (w *World) runApp(ops []AppOp) {
	by := map[string][]AppOp{}
	for _, o := range ops {
		by[o.Task] = append(by[o.Task], o)
	}
	for _, name := range sortedKeys(by) {
		list := by[name]
		sort.SliceStable(list, func(i, j int) bool { return list[i].AtMs < list[j].AtMs })
		simrt.GoActor("app-"+name, func() {
			for _, o := range list {
				d := time.Duration(o.AtMs)*time.Millisecond - simrt.Now()
				if d > 0 {
					simrt.Sleep(d)
				}
				w.appOp(name, o)
			}
		})
	}
}

func (w *World) sockOf(alias string) engine.Socket {
	w.mu.Lock()
	defer w.mu.Unlock()
	return w.Socks[alias]
}

// slowReader is application data that takes its time: a plain io.Reader (so the packet is binary) whose first
// Read blocks for a while - the transport's writer goroutine sits in the middle of its batch meanwhile.
type slowReader struct {
	r    io.Reader
	ms   int
	done bool
	data []byte // what it will yield (for the event records)
}

func (s *slowReader) Read(b []byte) (int, error) {
	if !s.done {
		s.done = true
		simrt.Sleep(time.Duration(s.ms) * time.Millisecond)
	}
	return s.r.Read(b)
}

func msgReader(data []byte, binary bool) io.Reader {
	if binary {
		return types.NewBytesBuffer(append([]byte(nil), data...))
	}
	return types.NewStringBuffer(append([]byte(nil), data...))
}

func (w *World) appOp(task string, o AppOp) {
	switch o.Op {
	case "send":
		sock := w.sockOf(o.Sess)
		if sock == nil {
			w.rec(o.Sess, "app-skip", "send "+o.ID+": no session yet", 0)
			return
		}
		w.appSend(task, o.Sess, sock, o, nil)
	case "broadcast":
		// one message for every session there is, the way socket.io's adapter broadcasts: the packet options (and the
		// frame pre-encoded in them) are built once and the same object goes to every session's Send
		w.mu.Lock()
		var targets []string
		for _, a := range sortedKeys(w.Socks) {
			if sp := w.specOf(a); sp != nil && len(sp.Raw) == 0 {
				targets = append(targets, a)
			}
		}
		w.mu.Unlock()
		if len(targets) >= 2 {
			w.probe("broadcast_shared_options")
		}
		shared := map[int]*packet.Options{}
		for _, a := range targets {
			sock := w.sockOf(a)
			if sock == nil {
				continue
			}
			w.appSend(task, a, sock, o, shared)
		}
	case "close", "close-discard":
		sock := w.sockOf(o.Sess)
		if sock == nil {
			w.rec(o.Sess, "app-skip", o.Op+": no session yet", 0)
			return
		}
		w.recx(Ev{Sess: o.Sess, Kind: "app-close", S: o.Op, St: sockState(sock)})
		sock.Close(o.Op == "close-discard")
		simrt.Yield(-5)
		w.recx(Ev{Sess: o.Sess, Kind: "app-close-ret", S: o.Op, St: sockState(sock)})
	case "server-close":
		w.rec("", "app-server-close", "", 0)
		w.Srv.Close()
		simrt.Yield(-5)
		w.rec("", "app-server-close-ret", "", 0)
	case "http-close":
		if w.HS != nil {
			w.rec("", "app-http-close", "", 0)
			w.HS.Close(nil)
			simrt.Yield(-5)
			w.rec("", "app-http-close-ret", "", 0)
		}
	}
}

func (w *World) appSend(task, alias string, sock engine.Socket, o AppOp, shared map[int]*packet.Options) {
	data := payloadForC(o.ID, o.Size, o.Chars)
	var opts *packet.Options
	if so, ok := shared[sock.Protocol()]; ok {
		opts = so
	} else {
		switch o.Opt {
		case "nocompress":
			opts = &packet.Options{Compress: false}
		case "preencoded":
			// the frame the application pre-computed for WebSocket/WebTransport:
			// exactly what the transport would have produced for this packet
			opts = &packet.Options{Compress: true, WsPreEncodedFrame: w.preEncode(sock, data, o.Binary)}
		case "":
			if shared != nil {
				opts = &packet.Options{Compress: true}
			}
		}
		if shared != nil {
			shared[sock.Protocol()] = opts
		}
	}
	var cb engine.SendCallback
	if o.CB {
		id := o.ID
		cb = func(t transports.Transport) {
			n := ""
			if t != nil {
				n = t.Name()
			}
			w.recx(Ev{Sess: alias, Kind: "app-cb", S: id, P: []string{n}, St: sockState(sock)})
			w.reentrant(alias, sock, "callback")
		}
	}
	st := sock.ReadyState()
	seq := w.recx(Ev{Sess: alias, Kind: "app-send", S: kindPrefix(o.Binary) + string(data), P: []string{task, o.ID, o.Opt}, St: sockState(sock), N: boolN(o.CB)})
	w.mu.Lock()
	w.sent[alias] = append(w.sent[alias], SentMsg{ID: o.ID, Data: data, Binary: o.Binary, Seq: seq, Sender: task, CB: o.CB, State: st})
	idx := len(w.sent[alias]) - 1
	w.mu.Unlock()
	var rd io.Reader = msgReader(data, o.Binary)
	if o.SlowMs > 0 && o.Binary && o.Opt != "preencoded" {
		w.probe("slow_data_reader")
		rd = &slowReader{r: bytes.NewReader(append([]byte(nil), data...)), ms: o.SlowMs, data: append([]byte(nil), data...)}
	}
	if o.UseWrite {
		sock.Write(rd, opts, cb)
	} else {
		sock.Send(rd, opts, cb)
	}
	simrt.Yield(-5)
	ret := w.recx(Ev{Sess: alias, Kind: "app-send-ret", S: o.ID, St: sockState(sock)})
	w.mu.Lock()
	w.sent[alias][idx].SeqRet = ret
	w.mu.Unlock()
}

// preEncode computes the pre-encoded frame for a message the way socket.io's
// broadcast adapter does: the wire form of the packet for a stream transport of
// the session's revision (binary support assumed, as the adapter does).
func (w *World) preEncode(sock engine.Socket, data []byte, binary bool) types.BufferInterface {
	if binary {
		if sock.Protocol() == 3 {
			return types.NewBytesBuffer(append([]byte{4}, data...))
		}
		return types.NewBytesBuffer(append([]byte(nil), data...))
	}
	return types.NewStringBuffer(append([]byte("4"), data...))
}

// reentrant performs the configured re-entrant call when its trigger fires.
func (w *World) reentrant(alias string, sock engine.Socket, event string) {
	for i := range w.Sc.Reent {
		r := &w.Sc.Reent[i]
		if r.Event != event || (r.Sess != "" && r.Sess != alias) {
			continue
		}
		key := fmt.Sprintf("reent:%d:%s", i, alias)
		w.mu.Lock()
		w.Probes[key]++
		n := w.Probes[key]
		w.mu.Unlock()
		if n != r.Nth {
			continue
		}
		w.probe("reentrant_call_" + r.Call + "_in_" + event)
		id := fmt.Sprintf("re%d.%s", i, alias)
		w.recx(Ev{Sess: alias, Kind: "reent-call", S: r.Call + " in " + event, St: sockState(sock)})
		switch r.Call {
		case "send":
			data := payloadFor(id, 12)
			seq := w.recx(Ev{Sess: alias, Kind: "app-send", S: "t:" + string(data), P: []string{"reent-" + event, id, ""}, St: sockState(sock)})
			st := sock.ReadyState()
			w.mu.Lock()
			w.sent[alias] = append(w.sent[alias], SentMsg{ID: id, Data: data, Seq: seq, Sender: "reent-" + event + fmt.Sprint(i), State: st})
			idx := len(w.sent[alias]) - 1
			w.mu.Unlock()
			sock.Send(msgReader(data, false), nil, nil)
			ret := w.recx(Ev{Sess: alias, Kind: "app-send-ret", S: id, St: sockState(sock)})
			w.mu.Lock()
			w.sent[alias][idx].SeqRet = ret
			w.mu.Unlock()
		case "close":
			sock.Close(false)
		case "close-discard":
			sock.Close(true)
		case "sleep":
			// a listener that does some work: the request (or reader) that delivered the event stays
			// in flight for that long, so that other requests, closes and timers land inside it
			simrt.Sleep(time.Duration(r.Ms) * time.Millisecond)
			if r.Then != "" {
				then := r.Then
				simrt.GoActor(fmt.Sprintf("app-then%d-%s", i, alias), func() {
					w.recx(Ev{Sess: alias, Kind: "app-close", S: then, St: sockState(sock)})
					sock.Close(then == "close-discard")
					simrt.Yield(-5)
					w.recx(Ev{Sess: alias, Kind: "app-close-ret", S: then, St: sockState(sock)})
				})
			}
		}
		w.recx(Ev{Sess: alias, Kind: "reent-ret", S: r.Call + " in " + event, St: sockState(sock)})
	}
}

func isMsgPacketString(s string) bool { return strings.HasPrefix(s, "message|") }

// specOf finds a client's spec by alias (no locking: the scenario is read-only during a run).
func (w *World) specOf(name string) *ClientSpec {
	for i := range w.Sc.Clients {
		if w.Sc.Clients[i].Name == name {
			return &w.Sc.Clients[i]
		}
	}
	return nil
}
